package rules

import (
	"fmt"
	"go/token"
	"go/types"
	"sort"
	"strings"

	"golang.org/x/tools/go/ssa"

	"mosverif/core"
)

func init() {
	reg("C20", "Three ownership disciplines that every schedule must respect because they are facts of the code's happens-before structure, decided for all paths: "+
		"(R20a) after a release call no path dereferences, passes on or re-releases the released object (aliases through the variable it was loaded from included); "+
		"(R20b) nothing is released by a function while a goroutine it spawned (directly, or through a callee that hands its parameter to a goroutine) may still hold it, unless ownership moved to the goroutine; "+
		"(R20c) a spawned closure never writes a variable that its parent keeps using without a join; "+
		"(R20d) no Transport.ExchangeContext implementation stores, sends, captures or writes through the caller's query buffer; "+
		"(R20g) every object is reset before it is put back into its sync.Pool; (R01c) every pool-buffer release receives a non-nil, pool-born, capacity-preserving buffer. "+
		"Not decided: general data-race freedom (no points-to / may-happen-in-parallel analysis is available in this tool set).",
		Rule{ID: "R20a", Doc: "release typestate: no use after release", Floor: 60, AllVariants: true, Run: r20a},
		Rule{ID: "R20b", Doc: "nothing is released under a goroutine that still holds it", Floor: 20, AllVariants: true, Run: r20b},
		Rule{ID: "R20c", Doc: "goroutine-shared variables", Floor: 20, AllVariants: true, Run: r20c},
		Rule{ID: "R20d", Doc: "transport ownership contract", Floor: 5, AllVariants: true, Run: r20d},
		Rule{ID: "R20g", Doc: "pool-put hygiene", Floor: 12, AllVariants: true, Run: r20g},
		Rule{ID: "R01c", Doc: "pool release precondition: non-nil, pool-born, capacity-preserving", Floor: 40, AllVariants: true, Run: r01c},
		Rule{ID: "R20e", Doc: "a struct copied into its new owner is not released through the original", Floor: 1, AllVariants: true, Run: r20e},
		Rule{ID: "R01g", Doc: "the decoder is given exactly the received bytes, never the rest of a recycled buffer (shared with C01)", Floor: 8, AllVariants: true, Run: r01g},
		Rule{ID: "R20h", Doc: "pooled buffers are not handed to slice-retaining library calls and then released", Floor: 5, AllVariants: true, Run: r20h},
		Rule{ID: "R20i", Doc: "a decoded value handed to its record is not released again by the decoder", Floor: 8, AllVariants: true, Run: r20i},
		Rule{ID: "R20j", Doc: "a struct overlaid on a non-zeroed buffer is written completely", Floor: 3, Run: r20j},
		Rule{ID: "R07d", Doc: "cache values are copied under the entry lock (the lock is what keeps releaseEntry from recycling the buffer; shared with C07)", Floor: 8, Run: r07d},
		Rule{ID: "R20m", Doc: "the spawner does not assign a variable again that a goroutine it started captured by reference", Floor: 5, AllVariants: true, Run: r20m},
		Rule{ID: "R20n", Doc: "a slice whose elements were released is cleared or emptied before it is handed on", Floor: 1, AllVariants: true, Run: r20n},
		Rule{ID: "R20l", Doc: "an object the caller releases when a callee fails is not released by the callee's own error handling as well", Floor: 3, AllVariants: true, Run: r20l},
		Rule{ID: "R20k", Doc: "message sections own their slices and their records (no slice shared between sections, no record shared between messages)", Floor: 8, AllVariants: true, Run: r20k},
	)
}

// ---------- release summaries ----------

type relInfo struct {
	params map[int]bool // parameter indices the function releases (hands back to a pool)
}

var baseRelease = map[string]int{ // full callee name -> released argument index (receiver counted)
	"github.com/IrineSistiana/bytespool.Release": 0,
	"(*sync.Pool).Put":                           1,
}

// paramIndex returns the index of the parameter v derives from by value-preserving steps, or -1.
func paramIndex(fn *ssa.Function, v ssa.Value) int {
	for _, o := range core.Origins(v, core.OriginOpts{}) {
		if p, ok := o.(*ssa.Parameter); ok && p.Parent() == fn {
			for i, q := range fn.Params {
				if q == p {
					return i
				}
			}
		}
	}
	return -1
}

// releaseSummaries computes which parameters each module function releases (transitively).
func releaseSummaries(c *core.Ctx) map[*ssa.Function]*relInfo {
	sum := map[*ssa.Function]*relInfo{}
	changed := true
	for changed {
		changed = false
		for _, fn := range c.SrcFuncs() {
			if fn.Parent() != nil {
				continue
			}
			for _, call := range core.Calls(fn) {
				if _, isGo := call.(*ssa.Go); isGo {
					continue
				}
				idx := -1
				n := core.CallName(call)
				if bi, ok := baseRelease[n]; ok {
					idx = bi
				}
				var relIdx []int
				if idx >= 0 {
					relIdx = []int{idx}
				} else if callee := core.StaticCallee(call); callee != nil && sum[callee] != nil {
					for k := range sum[callee].params {
						relIdx = append(relIdx, k)
					}
				}
				args := core.CallArgs(call)
				for _, k := range relIdx {
					if k >= len(args) {
						continue
					}
					if pi := paramIndex(fn, args[k]); pi >= 0 {
						if sum[fn] == nil {
							sum[fn] = &relInfo{params: map[int]bool{}}
						}
						if !sum[fn].params[pi] {
							sum[fn].params[pi] = true
							changed = true
						}
					}
				}
			}
		}
	}
	return sum
}

// releasedArgs returns the argument values a call releases (per summaries / base table).
func releasedArgs(call ssa.CallInstruction, sum map[*ssa.Function]*relInfo) []ssa.Value {
	var out []ssa.Value
	args := core.CallArgs(call)
	if bi, ok := baseRelease[core.CallName(call)]; ok && bi < len(args) {
		out = append(out, args[bi])
	}
	if callee := core.StaticCallee(call); callee != nil && sum[callee] != nil {
		var ks []int
		for k := range sum[callee].params {
			ks = append(ks, k)
		}
		sort.Ints(ks)
		for _, k := range ks {
			if k < len(args) {
				out = append(out, args[k])
			}
		}
	}
	return out
}

// addrOf returns the address a value was loaded from (Alloc / FreeVar / FieldAddr), if any.
func addrOf(v ssa.Value) ssa.Value {
	v = core.Strip(v)
	if u, ok := v.(*ssa.UnOp); ok && u.Op == token.MUL {
		switch u.X.(type) {
		case *ssa.Alloc, *ssa.FreeVar:
			return u.X
		}
	}
	return nil
}

// aliasUses lists instructions of fn that use value v or another load of the variable v was loaded
// from. DebugRefs and nil comparisons are not uses.
func aliasUses(fn *ssa.Function, v ssa.Value) []ssa.Instruction {
	var out []ssa.Instruction
	seen := map[ssa.Instruction]bool{}
	addUses := func(x ssa.Value) {
		for _, r := range core.RefsThrough(x) {
			if _, ok := r.(*ssa.DebugRef); ok {
				continue
			}
			if bo, ok := r.(*ssa.BinOp); ok && (core.IsNilConst(bo.X) || core.IsNilConst(bo.Y)) {
				continue
			}
			if r.Parent() != fn || seen[r] {
				continue
			}
			seen[r] = true
			out = append(out, r)
		}
	}
	base := core.Strip(v)
	addUses(base)
	if a := addrOf(base); a != nil {
		if refs := a.Referrers(); refs != nil {
			for _, r := range *refs {
				if u, ok := r.(*ssa.UnOp); ok && u.Op == token.MUL && u != base {
					addUses(u)
				}
			}
		}
	}
	return out
}

// derefsParam classifies how fn uses its i-th parameter: "none", "may" (on some path) or "must" (on every path to return).
func derefsParam(fn *ssa.Function, i int, depth int, memo map[string]string) string {
	key := fmt.Sprintf("%p/%d", fn, i)
	if r, ok := memo[key]; ok {
		return r
	}
	memo[key] = "may" // recursion guard
	if fn.Blocks == nil || i >= len(fn.Params) || depth > 4 {
		return "may"
	}
	p := fn.Params[i]
	var uses []ssa.Instruction
	for _, r := range core.RefsThrough(p) {
		switch x := r.(type) {
		case *ssa.DebugRef:
			continue
		case *ssa.BinOp:
			if core.IsNilConst(x.X) || core.IsNilConst(x.Y) {
				continue
			}
		case ssa.CallInstruction:
			if callee := core.StaticCallee(x); callee != nil && callee.Blocks != nil {
				args := core.CallArgs(x)
				sub := "none"
				for k, a := range args {
					if core.Strip(a) == ssa.Value(p) {
						s := derefsParam(callee, k, depth+1, memo)
						if s == "must" || (s == "may" && sub == "none") {
							sub = s
						}
					}
				}
				if sub == "none" {
					continue
				}
			}
		case *ssa.Store:
			if x.Val == ssa.Value(p) {
				// storing the pointer somewhere (e.g. spilling to a local) is a use only if read back; be conservative
			}
		}
		uses = append(uses, r)
	}
	res := "none"
	if len(uses) > 0 {
		res = "may"
		isUse := func(in ssa.Instruction) bool {
			for _, u := range uses {
				if u == in {
					return true
				}
			}
			return false
		}
		if core.Reach(fn, nil, core.IsReturn, isUse) == nil {
			res = "must"
		}
	}
	memo[key] = res
	return res
}

// reviewed (caller, callee, parameter) triples for may-uses after release (R20a), with reasons.
var r20aReviewed = map[string]string{
	"(*app/router.gnetServer).OnTraffic$1 -> app/router.mustHaveRespB#0": "F16: `query` is read only when packing the (always non-nil) response failed, which the size/layout argument (Len() sizing, R02a/R09b) rules out; if mustHaveRespB ever reads it unconditionally the summary becomes `must` and this entry no longer applies",
}

func r20a(c *core.Ctx) {
	sum := releaseSummaries(c)
	memo := map[string]string{}
	var names []string
	for f := range sum {
		names = append(names, core.FuncName(f))
	}
	sort.Strings(names)
	c.Notes = append(c.Notes, fmt.Sprintf("R20a: %d release functions (computed): %s", len(names), strings.Join(names, ", ")))
	if len(names) < 15 {
		c.Unknown("release-functions", token.NoPos, nil, "at least 15 release functions are discovered", fmt.Sprint(len(names)))
	}
	for _, fn := range c.SrcFuncs() {
		for _, call := range core.Calls(fn) {
			rel := releasedArgs(call, sum)
			if len(rel) == 0 {
				continue
			}
			_, isDefer := call.(*ssa.Defer)
			for _, x := range rel {
				if core.IsNilConst(x) {
					continue
				}
				key := fmt.Sprintf("no-use-after:%s:%s(%s)", core.FuncName(fn), shortCallee(call), core.Expr(x))
				if isDefer {
					// a deferred release runs at exit: the released value must not be returned
					esc := false
					for _, ret := range returnsOf(fn) {
						for _, rv := range core.ReturnResults(ret) {
							if core.InstrDominates(call, ret) && derivesFrom(rv, core.Strip(x)) && !core.IsNilConst(rv) {
								esc = true
							}
						}
					}
					c.Check(!esc, key+":deferred", call.Pos(), fn, "a value released by defer is not returned to the caller", "")
					continue
				}
				// the releasing function itself (its own parameter hand-off) is not a client
				if sum[fn] != nil && paramIndex(fn, x) >= 0 && sum[fn].params[paramIndex(fn, x)] && fn.Parent() == nil {
					// inside a release function: uses after Put are still violations
				}
				var viol []string
				// a release registered with defer before this call runs again at exit: double release
				for _, dc := range core.Calls(fn) {
					d, isD := dc.(*ssa.Defer)
					if !isD || !reachableFrom(fn, d, call) {
						continue
					}
					for _, rx := range releasedArgs(d, sum) {
						if aliasOf(rx, x) || sameBuffer(rx, x) {
							viol = append(viol, fmt.Sprintf("released again by the deferred %s registered at %s", shortCallee(d), c.Rel(d.Pos())))
						}
					}
				}
				for _, u := range aliasUses(fn, x) {
					if u == call.(ssa.Instruction) {
						continue
					}
					if !reachableFrom(fn, call, u) {
						continue
					}
					// a store of a new value into the variable re-initialises it: uses dominated by such a store are of the new value
					if st, ok := u.(*ssa.Store); ok && addrOf(x) != nil && st.Addr == addrOf(x) {
						continue
					}
					if a := addrOf(x); a != nil && redefinedBetween(fn, call, u, a) {
						continue
					}
					// the released SSA value is (re)computed on every path from the release to this use
					// (loop iteration): the use sees a new object
					if def, ok := core.Strip(x).(ssa.Instruction); ok && def.Parent() == fn {
						if core.Reach(fn, call, func(in ssa.Instruction) bool { return in == u }, func(in ssa.Instruction) bool { return in == def }) == nil {
							continue
						}
					}
					// classify
					if ci, ok := u.(ssa.CallInstruction); ok {
						if callee := core.StaticCallee(ci); callee != nil && callee.Blocks != nil {
							worst := "none"
							for k, a := range core.CallArgs(ci) {
								if aliasOf(a, x) {
									s := derefsParam(callee, k, 0, memo)
									if s == "must" || (s == "may" && worst == "none") {
										worst = s
									}
									if s == "may" {
										tk := fmt.Sprintf("%s -> %s#%d", core.FuncName(fn), core.FuncName(callee), k)
										if reason, ok := r20aReviewed[tk]; ok {
											c.Reviewed(key+":may-use:"+core.FuncName(callee), u.Pos(), fn, "no use after release", reason)
											worst = "reviewed"
										}
									}
								}
							}
							if worst == "none" || worst == "reviewed" {
								continue
							}
							viol = append(viol, fmt.Sprintf("%s at %s (callee dereferences it: %s)", core.Expr(ci.Common().Value), c.Rel(u.Pos()), worst))
							continue
						}
					}
					viol = append(viol, fmt.Sprintf("%s at %s", u.String(), c.Rel(u.Pos())))
				}
				if len(viol) > 0 {
					c.Bad(key, call.Pos(), fn, "after this release no path uses the released object (it may already belong to another request)", "used after release: "+strings.Join(viol, "; "))
				} else {
					c.OK(key, call.Pos(), fn, "after this release no path uses the released object", "")
				}
			}
		}
	}
}

func aliasOf(a, x ssa.Value) bool {
	a, x = core.Strip(a), core.Strip(x)
	if a == x {
		return true
	}
	if aa, xa := addrOf(a), addrOf(x); aa != nil && aa == xa {
		return true
	}
	return false
}

// redefinedBetween: every path from `from` to `to` passes a store to addr (or the re-execution of the
// Alloc that creates the variable): `to` then sees a new value.
func redefinedBetween(fn *ssa.Function, from, to ssa.Instruction, addr ssa.Value) bool {
	kill := func(in ssa.Instruction) bool {
		if st, ok := in.(*ssa.Store); ok && st.Addr == addr {
			return true
		}
		if al, ok := addr.(*ssa.Alloc); ok && in == ssa.Instruction(al) {
			return true
		}
		return false
	}
	return core.Reach(fn, from, func(in ssa.Instruction) bool { return in == to }, kill) == nil
}

// ---------- R20b ----------

// releasableType: the value may be handed to one of the module's release functions.
func releasableType(t types.Type) bool {
	s := core.TypeName(t)
	switch {
	case strings.HasSuffix(s, "dnsmsg.Msg"), strings.HasSuffix(s, "dnsmsg.Question"), strings.HasSuffix(s, "router.RequestContext"),
		strings.HasSuffix(s, "pool.Buffer"), strings.HasSuffix(s, "dnsmsg.Name"), s == "[]byte", s == "[]uint8",
		strings.HasSuffix(s, "cache.cacheEntry"), strings.HasSuffix(s, "bufio.Reader"), strings.HasSuffix(s, "bytes.Buffer"):
		return true
	}
	if strings.Contains(s, "dnsmsg.") && (strings.HasSuffix(s, ".A") || strings.HasSuffix(s, "AAAA") || strings.HasSuffix(s, ".MX") || strings.HasSuffix(s, "Resource") || strings.HasSuffix(s, ".SOA") || strings.HasSuffix(s, ".SRV")) {
		return true
	}
	return false
}

// derivedFromParam: v is (part of) parameter i of fn: reached without passing through a call result.
func derivedParam(fn *ssa.Function, v ssa.Value) int {
	seen := map[ssa.Value]bool{}
	var walk func(v ssa.Value, d int) int
	walk = func(v ssa.Value, d int) int {
		if v == nil || d > 10 || seen[v] {
			return -1
		}
		seen[v] = true
		switch x := v.(type) {
		case *ssa.Parameter:
			for i, p := range fn.Params {
				if p == x {
					return i
				}
			}
		case *ssa.ChangeType:
			return walk(x.X, d+1)
		case *ssa.Convert:
			return walk(x.X, d+1)
		case *ssa.MakeInterface:
			return walk(x.X, d+1)
		case *ssa.Slice:
			return walk(x.X, d+1)
		case *ssa.FieldAddr:
			return walk(x.X, d+1)
		case *ssa.Field:
			return walk(x.X, d+1)
		case *ssa.IndexAddr:
			return walk(x.X, d+1)
		case *ssa.Phi:
			for _, e := range x.Edges {
				if r := walk(e, d+1); r >= 0 {
					return r
				}
			}
		case *ssa.UnOp:
			if x.Op == token.MUL {
				if al, ok := x.X.(*ssa.Alloc); ok {
					for _, r := range *al.Referrers() {
						if st, ok := r.(*ssa.Store); ok && st.Addr == ssa.Value(al) {
							if k := walk(st.Val, d+1); k >= 0 {
								return k
							}
						}
					}
					return -1
				}
				return walk(x.X, d+1)
			}
		}
		return -1
	}
	return walk(v, 0)
}

type capture struct {
	spawn   ssa.Instruction
	closure *ssa.Function
	val     ssa.Value // the captured value (or the cell's alloc)
	cell    *ssa.Alloc
}

// captures lists releasable values a spawned closure holds.
func spawnCaptures(fn *ssa.Function) []capture {
	var out []capture
	core.EachInstr(fn, func(_ *ssa.BasicBlock, _ int, in ssa.Instruction) {
		if !isSpawn(in) {
			return
		}
		cl, mc := spawnedClosure(in)
		if cl == nil {
			return
		}
		if mc != nil {
			for i, b := range mc.Bindings {
				_ = i
				switch x := b.(type) {
				case *ssa.Alloc:
					et := x.Type().(*types.Pointer).Elem()
					if releasableType(et) {
						out = append(out, capture{in, cl, x, x})
					}
				default:
					if releasableType(b.Type()) {
						out = append(out, capture{in, cl, b, nil})
					}
				}
			}
		}
		// go f(args): arguments
		if g, ok := in.(*ssa.Go); ok {
			for _, a := range g.Call.Args {
				if releasableType(a.Type()) {
					out = append(out, capture{in, cl, a, nil})
				}
			}
		}
	})
	return out
}

// closureUses: does the closure (or its nested closures) use the captured free variable bound to val?
func closureUsesBinding(cl *ssa.Function, mc *ssa.MakeClosure, val ssa.Value) bool {
	if mc == nil {
		return true
	}
	for i, b := range mc.Bindings {
		if b == val && i < len(cl.FreeVars) {
			refs := cl.FreeVars[i].Referrers()
			return refs != nil && len(*refs) > 0
		}
	}
	return false
}

// leakSummaries: function -> parameter indices that are handed to a goroutine which may outlive the call.
func leakSummaries(c *core.Ctx) map[*ssa.Function]map[int]string {
	leak := map[*ssa.Function]map[int]string{}
	set := func(fn *ssa.Function, i int, why string) bool {
		if leak[fn] == nil {
			leak[fn] = map[int]string{}
		}
		if _, ok := leak[fn][i]; ok {
			return false
		}
		leak[fn][i] = why
		return true
	}
	changed := true
	for changed {
		changed = false
		for _, fn := range c.SrcFuncs() {
			if fn.Parent() != nil {
				continue
			}
			for _, cp := range spawnCaptures(fn) {
				var v ssa.Value = cp.val
				pi := -1
				if cp.cell != nil {
					pi = derivedParam(fn, &ssa.UnOp{Op: token.MUL, X: cp.cell})
					// derivedParam needs a real load; emulate through stores
					for _, r := range *cp.cell.Referrers() {
						if st, ok := r.(*ssa.Store); ok && st.Addr == ssa.Value(cp.cell) {
							if k := derivedParam(fn, st.Val); k >= 0 {
								pi = k
							}
						}
					}
				} else {
					pi = derivedParam(fn, v)
				}
				if pi >= 0 && !joinsBeforeReturn(fn, cp) {
					if set(fn, pi, "captured by the goroutine started at "+c.Rel(cp.spawn.Pos())) {
						changed = true
					}
				}
			}
			for _, call := range core.Calls(fn) {
				if isSpawn(call.(ssa.Instruction)) {
					continue
				}
				callee := core.StaticCallee(call)
				if callee == nil || leak[callee] == nil {
					continue
				}
				args := core.CallArgs(call)
				for k, why := range leak[callee] {
					if k < len(args) {
						if pi := derivedParam(fn, args[k]); pi >= 0 {
							if set(fn, pi, "passed to "+core.FuncName(callee)+" ("+why+")") {
								changed = true
							}
						}
					}
				}
			}
		}
	}
	return leak
}

// joinsBeforeReturn: every path from the spawn to a return of fn passes a receive from a channel the
// closure sends on (so the goroutine's use of the value happens-before the return). Conservative:
// only a plain receive or a select whose every arm is such a receive counts.
func joinsBeforeReturn(fn *ssa.Function, cp capture) bool {
	chans := map[ssa.Value]bool{}
	core.EachInstr(cp.closure, func(_ *ssa.BasicBlock, _ int, in ssa.Instruction) {
		if s, ok := in.(*ssa.Send); ok {
			if b := boundValue(s.Chan); b != nil {
				chans[boundOrSelf(s.Chan)] = true
			}
		}
	})
	if len(chans) == 0 {
		return false
	}
	isJoin := func(in ssa.Instruction) bool {
		if u, ok := in.(*ssa.UnOp); ok && u.Op == token.ARROW {
			for ch := range chans {
				if derivesFrom(u.X, ch) {
					return true
				}
			}
		}
		return false
	}
	return core.Reach(fn, cp.spawn, core.IsReturn, isJoin) == nil
}

func r20b(c *core.Ctx) {
	sum := releaseSummaries(c)
	leak := leakSummaries(c)
	// (1) direct: the spawning function releases what the goroutine holds
	for _, fn := range c.SrcFuncs() {
		for _, cp := range spawnCaptures(fn) {
			key := fmt.Sprintf("spawn-holds:%s:%s", core.FuncName(fn), core.Expr(cp.val))
			var bad []string
			for _, call := range core.Calls(fn) {
				if _, isGo := call.(*ssa.Go); isGo {
					continue // what a spawned function releases is released by the goroutine, not by the spawner
				}
				for _, x := range releasedArgs(call, sum) {
					same := false
					if cp.cell != nil {
						same = addrOf(x) == ssa.Value(cp.cell)
					} else {
						same = core.Strip(x) == core.Strip(cp.val) || (addrOf(x) != nil && addrOf(x) == addrOf(cp.val))
					}
					if !same {
						continue
					}
					if _, isDefer := call.(*ssa.Defer); isDefer {
						bad = append(bad, "deferred "+shortCallee(call)+" at "+c.Rel(call.Pos())+" runs when the spawner returns, while the goroutine may still run")
						continue
					}
					// released after the spawn on some path, without re-creation of the variable and without join
					var kill func(in ssa.Instruction) bool
					if cp.cell != nil {
						kill = func(in ssa.Instruction) bool { return in == ssa.Instruction(cp.cell) }
					} else if def, ok := core.Strip(cp.val).(ssa.Instruction); ok && def.Parent() == fn {
						// the held SSA value is computed anew on the way (next loop iteration): a different object
						kill = func(in ssa.Instruction) bool { return in == def }
					}
					if core.Reach(fn, cp.spawn, func(in ssa.Instruction) bool { return in == call.(ssa.Instruction) }, kill) != nil && !joinsBeforeReturn(fn, cp) {
						bad = append(bad, shortCallee(call)+" at "+c.Rel(call.Pos())+" is reachable after the spawn")
					}
				}
			}
			if len(bad) > 0 {
				c.Bad(key, cp.spawn.Pos(), fn, "a value held by a spawned goroutine is not released by the spawner (the goroutine may outlive it)", strings.Join(bad, "; "))
			} else {
				c.OK(key, cp.spawn.Pos(), fn, "a value held by a spawned goroutine is not released by the spawner", "")
			}
		}
	}
	// (2) through callees: a caller releases an argument it passed to a function that leaks that parameter to a goroutine
	var lf []*ssa.Function
	for f := range leak {
		lf = append(lf, f)
	}
	sortFns(lf)
	for _, callee := range lf {
		for pi, why := range leak[callee] {
			for _, s := range c.CallSitesOf(callee) {
				args := core.CallArgs(s.Call)
				if pi >= len(args) {
					continue
				}
				arg := args[pi]
				if !releasableType(arg.Type()) {
					continue
				}
				key := fmt.Sprintf("leaked-arg:%s->%s#%d", core.FuncName(s.Fn), core.FuncName(callee), pi)
				var bad []string
				for _, call := range core.Calls(s.Fn) {
					for _, x := range releasedArgs(call, sum) {
						if !aliasOf(x, arg) && !(derivedParam(s.Fn, x) >= 0 && derivedParam(s.Fn, x) == derivedParam(s.Fn, arg)) {
							continue
						}
						if _, isDefer := call.(*ssa.Defer); isDefer {
							bad = append(bad, "deferred "+shortCallee(call)+"("+core.Expr(x)+") at "+c.Rel(call.Pos()))
						} else if reachableFrom(s.Fn, s.Call, call) {
							bad = append(bad, shortCallee(call)+"("+core.Expr(x)+") at "+c.Rel(call.Pos()))
						}
					}
				}
				if len(bad) > 0 {
					c.Bad(key, s.Call.Pos(), s.Fn, "an object passed to a function that hands it to a goroutine is not released by the caller afterwards",
						fmt.Sprintf("%s parameter #%d is %s; the caller releases it: %s", core.FuncName(callee), pi, why, strings.Join(bad, "; ")))
				} else {
					c.OK(key, s.Call.Pos(), s.Fn, "an object passed to a function that hands it to a goroutine is not released by the caller afterwards", why)
				}
			}
		}
	}
	n := 0
	for _, fn := range c.SrcFuncs() {
		core.EachInstr(fn, func(_ *ssa.BasicBlock, _ int, in ssa.Instruction) {
			if isSpawn(in) {
				n++
				c.OK(fmt.Sprintf("spawn-site:%s#%d", core.FuncName(fn), n), in.Pos(), fn, "spawn site analysed", "")
			}
		})
	}
}

// ---------- R20c ----------

func r20c(c *core.Ctx) {
	for _, fn := range c.SrcFuncs() {
		core.EachInstr(fn, func(_ *ssa.BasicBlock, _ int, in ssa.Instruction) {
			if !isSpawn(in) {
				return
			}
			cl, mc := spawnedClosure(in)
			if cl == nil || mc == nil {
				return
			}
			key := fmt.Sprintf("shared-var:%s", core.FuncName(cl))
			var bad []string
			for _, f := range bodyAndClosures(cl) {
				core.EachInstr(f, func(_ *ssa.BasicBlock, _ int, wi ssa.Instruction) {
					st, ok := wi.(*ssa.Store)
					if !ok {
						return
					}
					fv, ok := st.Addr.(*ssa.FreeVar)
					if !ok {
						return
					}
					// resolve to the parent's alloc
					var b ssa.Value = fv
					for {
						x, isFV := b.(*ssa.FreeVar)
						if !isFV {
							break
						}
						b = core.Binding(x)
						if b == nil {
							break
						}
					}
					al, ok := b.(*ssa.Alloc)
					if !ok || al.Parent() != fn {
						return
					}
					// parent accesses after the spawn (not re-created, not joined)
					for _, r := range *al.Referrers() {
						if r.Parent() != fn {
							continue
						}
						switch r.(type) {
						case *ssa.UnOp, *ssa.Store:
						default:
							continue
						}
						if core.Reach(fn, in, func(x ssa.Instruction) bool { return x == r }, func(x ssa.Instruction) bool { return x == ssa.Instruction(al) }) == nil {
							continue
						}
						if joinedAccess(fn, cl, r) {
							continue
						}
						bad = append(bad, fmt.Sprintf("goroutine writes %s at %s; parent accesses it at %s", al.Comment, c.Rel(st.Pos()), c.Rel(r.Pos())))
					}
				})
			}
			if len(bad) > 0 {
				c.Bad(key, in.Pos(), fn, "a spawned closure does not write a variable its parent keeps using without a join (data race)", strings.Join(dedup(bad), "; "))
			} else {
				c.OK(key, in.Pos(), fn, "a spawned closure does not write a variable its parent keeps using without a join", "")
			}
		})
	}
}

// joinedAccess: the parent's access is dominated by a receive from a channel captured (and sent on or closed) by the closure.
func joinedAccess(fn, cl *ssa.Function, access ssa.Instruction) bool {
	chans := map[ssa.Value]bool{}
	for _, f := range bodyAndClosures(cl) {
		core.EachInstr(f, func(_ *ssa.BasicBlock, _ int, in ssa.Instruction) {
			switch s := in.(type) {
			case *ssa.Send:
				chans[boundOrSelf(s.Chan)] = true
			case *ssa.Call:
				if core.CallName(s) == "builtin.close" {
					chans[boundOrSelf(s.Call.Args[0])] = true
				}
			}
		})
	}
	ok := false
	core.EachInstr(fn, func(_ *ssa.BasicBlock, _ int, in ssa.Instruction) {
		var ch ssa.Value
		switch x := in.(type) {
		case *ssa.UnOp:
			if x.Op == token.ARROW {
				ch = x.X
			}
		}
		if ch == nil {
			return
		}
		for cv := range chans {
			if derivesFrom(ch, cv) && core.InstrDominates(in, access) {
				ok = true
			}
		}
	})
	return ok
}

// ---------- R20d ----------

// bufferEscapes reports how parameter p ([]byte) of fn is misused: stored, sent, captured by a spawn, written through.
func bufferEscapes(c *core.Ctx, fn *ssa.Function, p ssa.Value, depth int, seen map[string]bool) []string {
	key := fmt.Sprintf("%p/%p", fn, p)
	if seen[key] || depth > 5 {
		return nil
	}
	seen[key] = true
	var out []string
	var walk func(v ssa.Value)
	visited := map[ssa.Value]bool{}
	walk = func(v ssa.Value) {
		if visited[v] {
			return
		}
		visited[v] = true
		refs := v.Referrers()
		if refs == nil {
			return
		}
		for _, r := range *refs {
			switch x := r.(type) {
			case *ssa.DebugRef:
			case *ssa.Slice:
				walk(x)
			case *ssa.ChangeType:
				walk(x)
			case *ssa.Convert:
				// string(b) copies; []byte->named keeps aliasing
				if _, isStr := x.Type().Underlying().(*types.Basic); !isStr {
					walk(x)
				}
			case *ssa.Phi:
				walk(x)
			case *ssa.IndexAddr:
				// reads are fine, stores through it are not
				if ir := x.Referrers(); ir != nil {
					for _, rr := range *ir {
						if st, ok := rr.(*ssa.Store); ok && st.Addr == ssa.Value(x) {
							out = append(out, "written through at "+c.Rel(st.Pos()))
						}
					}
				}
			case *ssa.Store:
				if x.Val == v {
					if al, ok := x.Addr.(*ssa.Alloc); ok {
						// a local variable: follow its loads; a spawned closure capturing it is an escape
						for _, ar := range *al.Referrers() {
							switch y := ar.(type) {
							case *ssa.UnOp:
								if y.Op == token.MUL {
									walk(y)
								}
							case *ssa.MakeClosure:
								for _, rr := range *y.Referrers() {
									if isSpawn(rr) {
										out = append(out, "captured (via variable "+al.Comment+") by a goroutine at "+c.Rel(y.Pos()))
									}
								}
							}
						}
						continue
					}
					out = append(out, "stored to memory at "+c.Rel(x.Pos()))
				}
			case *ssa.Send:
				out = append(out, "sent on a channel at "+c.Rel(x.Pos()))
			case *ssa.MakeClosure:
				// captured: only a problem when the closure is spawned
				spawned := false
				for _, rr := range *x.Referrers() {
					if isSpawn(rr) {
						spawned = true
					}
				}
				if spawned {
					out = append(out, "captured by a goroutine at "+c.Rel(x.Pos()))
				}
			case *ssa.MakeInterface:
				out = append(out, "boxed into an interface at "+c.Rel(x.Pos()))
			case *ssa.Return:
				out = append(out, "returned at "+c.Rel(x.Pos()))
			case ssa.CallInstruction:
				n := core.CallName(x)
				args := core.CallArgs(x)
				switch {
				case n == "builtin.len" || n == "builtin.cap":
				case n == "builtin.copy":
					if args[0] == v {
						out = append(out, "copied INTO at "+c.Rel(x.Pos()))
					}
				case n == "builtin.append":
					if args[0] == v {
						out = append(out, "appended to at "+c.Rel(x.Pos()))
					}
				case strings.HasPrefix(n, "(encoding/binary.bigEndian).Uint") || strings.HasPrefix(n, "(encoding/binary.littleEndian).Uint"):
				case strings.HasPrefix(n, "(encoding/binary.bigEndian).Put") || strings.HasPrefix(n, "(encoding/binary.littleEndian).Put"):
					if len(args) > 1 && args[1] == v {
						out = append(out, "written through (PutUint) at "+c.Rel(x.Pos()))
					}
				default:
					if _, isGo := r.(*ssa.Go); isGo {
						out = append(out, "passed to a goroutine at "+c.Rel(x.Pos()))
						continue
					}
					callee := core.StaticCallee(x)
					if callee != nil && callee.Blocks != nil && callee.Pkg != nil && core.IsModule(callee.Pkg.Pkg) {
						for k, a := range args {
							if a == v && k < len(callee.Params) {
								for _, e := range bufferEscapes(c, callee, callee.Params[k], depth+1, seen) {
									out = append(out, core.FuncName(callee)+": "+e)
								}
							}
						}
						continue
					}
					if x.Common().IsInvoke() && (x.Common().Method.Name() == "Write" || x.Common().Method.Name() == "ExchangeContext") {
						continue // io.Writer contract: must not retain/modify; Transport contract is what we check on each implementation
					}
					if x.Common().IsInvoke() {
						// module interface: every implementation is followed
						if iface, ok := x.Common().Value.Type().Underlying().(*types.Interface); ok {
							found := 0
							for _, f := range c.SrcFuncs() {
								if f.Name() != x.Common().Method.Name() || f.Signature.Recv() == nil || f.Parent() != nil || !types.Implements(f.Signature.Recv().Type(), iface) {
									continue
								}
								found++
								for k, a := range args {
									if a == v && k < len(f.Params) {
										for _, e := range bufferEscapes(c, f, f.Params[k], depth+1, seen) {
											out = append(out, core.FuncName(f)+": "+e)
										}
									}
								}
							}
							if found > 0 {
								continue
							}
						}
					}
					if viewReturningLib[n] {
						// returns sub-slices of its argument without retaining it: follow the results
						if val, ok := r.(ssa.Value); ok {
							walk(val)
							if refs := val.Referrers(); refs != nil {
								for _, rr := range *refs {
									if ex, ok := rr.(*ssa.Extract); ok {
										walk(ex)
									}
								}
							}
						}
						continue
					}
					out = append(out, "passed to "+core.ModName(n)+" at "+c.Rel(x.Pos()))
				}
			}
		}
	}
	walk(p)
	return out
}

// viewReturningLib: dependency functions that only read their []byte argument and return views into it.
var viewReturningLib = map[string]bool{
	"golang.org/x/sys/unix.ParseOneSocketControlMessage": true,
	"golang.org/x/sys/unix.ParseSocketControlMessage":    true,
}

func r20d(c *core.Ctx) {
	for _, fn := range transportImpls(c) {
		m := fn.Params[2]
		esc := bufferEscapes(c, fn, m, 0, map[string]bool{})
		c.Check(len(esc) == 0, "query-not-kept:"+core.FuncName(fn), fn.Pos(), fn, "ExchangeContext neither keeps nor modifies the caller's query buffer (it is released by the caller right after the call)", strings.Join(esc, "; "))
	}
	if uw := c.Anchor("app/router", "(*upstreamWrapper).Exchange"); uw != nil {
		esc := bufferEscapes(c, uw, uw.Params[2], 0, map[string]bool{})
		c.Check(len(esc) == 0, "query-not-kept:"+core.FuncName(uw), uw.Pos(), uw, "upstreamWrapper.Exchange neither keeps nor modifies the query buffer", strings.Join(esc, "; "))
	}
}

// ---------- R20g ----------

func r20g(c *core.Ctx) {
	for _, s := range c.CallSites("(*sync.Pool).Put") {
		fn := s.Fn
		x := s.Call.Common().Args[1]
		obj := core.Strip(x)
		key := "reset-before-put:" + core.FuncName(fn)
		t := obj.Type()
		pt, isPtr := t.Underlying().(*types.Pointer)
		switch {
		case isPtr && strings.HasSuffix(core.TypeName(t), "bytes.Buffer"):
			ok := false
			for _, call := range core.CallsNamed(fn, "(*bytes.Buffer).Reset") {
				if call.Common().Args[0] == obj && core.InstrDominates(call, s.Call) {
					ok = true
				}
			}
			c.Check(ok, key, s.Call.Pos(), fn, "a bytes.Buffer is Reset() before it is pooled", "")
		case isPtr && strings.HasSuffix(core.TypeName(t), "bufio.Reader"):
			ok := false
			for _, call := range core.CallsNamed(fn, "(*bufio.Reader).Reset") {
				if call.Common().Args[0] == obj && core.IsNilConst(call.Common().Args[1]) && core.InstrDominates(call, s.Call) {
					ok = true
				}
			}
			c.Check(ok, key, s.Call.Pos(), fn, "a bufio.Reader is Reset(nil) before it is pooled (it must not keep the connection)", "")
		case isPtr:
			st, isStruct := pt.Elem().Underlying().(*types.Struct)
			if !isStruct {
				c.Unknown(key, s.Call.Pos(), fn, "pooled object is reset", "unsupported pooled type "+t.String())
				continue
			}
			// whole-struct zero store?
			whole := false
			fieldReset := map[string]bool{}
			core.EachInstr(fn, func(_ *ssa.BasicBlock, _ int, in ssa.Instruction) {
				sto, ok := in.(*ssa.Store)
				if !ok {
					return
				}
				if sto.Addr == obj && isZeroConst(sto.Val) && core.InstrDominates(sto, s.Call) {
					whole = true
				}
				if fa, ok := sto.Addr.(*ssa.FieldAddr); ok && fa.X == obj {
					name := core.FieldAddrRef(fa).Name
					v := sto.Val
					reset := isZeroConst(v) || core.IsNilConst(v) || isEmptyString(v)
					lowZero := func(sl *ssa.Slice) bool {
						if sl.Low == nil {
							return true
						}
						k, isC := core.ConstInt(sl.Low)
						return isC && k == 0
					}
					if sl, ok := v.(*ssa.Slice); ok && lowZero(sl) && sl.High != nil {
						if k, ok := core.ConstInt(sl.High); ok && k == 0 {
							reset = true
						}
					}
					if !reset {
						return
					}
					if core.InstrDominates(sto, s.Call) {
						fieldReset[name] = true
					} else if hasCond(sto.Block(), "."+name+" != nil)", true) {
						fieldReset[name] = true // cleared whenever it was set
					}
				}
			})
			var missing []string
			pooledNamed, _ := pt.Elem().(*types.Named)
			for i := 0; i < st.NumFields(); i++ {
				f := st.Field(i)
				if strings.HasPrefix(core.TypeName(f.Type()), "sync.") || f.Name() == "_" {
					continue
				}
				if !whole && !fieldReset[core.CanonFieldName(pooledNamed, st, i)] {
					missing = append(missing, f.Name())
				}
			}
			c.Check(len(missing) == 0, key, s.Call.Pos(), fn, "every field of the pooled struct is reset before Put (nothing of the previous request survives in a recycled object)", "not reset: "+strings.Join(missing, ", "))
			// slices kept for capacity must be cleared (so they do not pin / expose released elements)
			if strings.HasSuffix(core.TypeName(t), "dnsmsg.Msg") {
				// every slice field kept for capacity is clear()ed — here, or by a helper that is handed the slice and
				// clears its parameter on every path
				var notCleared []string
				for i := 0; i < st.NumFields(); i++ {
					f := st.Field(i)
					if _, isSl := f.Type().Underlying().(*types.Slice); !isSl {
						continue
					}
					isField := func(v ssa.Value) bool {
						for _, o := range core.Origins(v, core.OriginOpts{}) {
							if ld, ok := o.(*ssa.UnOp); ok {
								if fa, ok := ld.X.(*ssa.FieldAddr); ok && fa.Field == i && fa.X == obj {
									return true
								}
							}
						}
						return false
					}
					cleared := false
					for _, call := range core.Calls(fn) {
						if !core.InstrDominates(call, s.Call) && !reachableFrom(fn, call, s.Call) {
							continue
						}
						if core.CallName(call) == "builtin.clear" && isField(call.Common().Args[0]) {
							cleared = true
						}
						if h := core.StaticCallee(call); h != nil && h.Blocks != nil && h.Pkg == fn.Pkg {
							for k, a := range core.CallArgs(call) {
								if !isField(a) || k >= len(h.Params) {
									continue
								}
								var hc ssa.Instruction
								for _, c2 := range core.CallsNamed(h, "builtin.clear") {
									if c2.Common().Args[0] == ssa.Value(h.Params[k]) {
										hc = c2
									}
								}
								if hc != nil && core.Reach(h, nil, core.IsReturn, func(in ssa.Instruction) bool { return in == hc }) == nil {
									cleared = true
								}
							}
						}
					}
					if !cleared {
						notCleared = append(notCleared, f.Name())
					}
				}
				c.Check(len(notCleared) == 0, key+":clear", s.Call.Pos(), fn, "the record slices kept for capacity are clear()ed before truncation", "not cleared: "+strings.Join(notCleared, ", "))
			}
		default:
			if _, isMap := t.Underlying().(*types.Map); isMap {
				ok := false
				for _, call := range core.CallsNamed(fn, "builtin.clear") {
					if call.Common().Args[0] == obj && core.InstrDominates(call, s.Call) {
						ok = true
					}
				}
				c.Check(ok, key, s.Call.Pos(), fn, "a pooled map is clear()ed before Put", "")
				continue
			}
			c.Unknown(key, s.Call.Pos(), fn, "pooled object is reset", "unsupported pooled type "+t.String())
		}
	}
}

func isEmptyString(v ssa.Value) bool {
	s, ok := core.ConstString(v)
	return ok && s == ""
}

// ---- R20h: pooled buffers are not handed to library calls that keep them ----

// retainingLib: dependency functions documented to keep the slice they are given (they do not copy it). A pooled
// buffer passed to one of them must not be released while the receiving object can still use it — in this code base
// every such buffer is released when the handler returns, i.e. before the library writes it out.
var retainingLib = map[string]string{
	"(*github.com/valyala/fasthttp.Response).SetBodyRaw":   "fasthttp keeps the slice and writes it after the handler returned",
	"(*github.com/valyala/fasthttp.Request).SetBodyRaw":    "fasthttp keeps the slice",
	"(*github.com/valyala/fasthttp.RequestCtx).SetBodyRaw": "fasthttp keeps the slice",
	"bytes.NewBuffer":                                      "the Buffer takes ownership of the slice",
	"bytes.NewReader":                                      "the Reader reads from the slice lazily",
	"(*bytes.Reader).Reset":                                "the Reader reads from the slice lazily",
}

func r20h(c *core.Ctx) {
	sum := bufFnSummaries(c)
	rel := releaseSummaries(c)
	nSites, nWrite := 0, 0
	for _, fn := range c.SrcFuncs() {
		for _, call := range core.Calls(fn) {
			n := core.CallName(call)
			why, retaining := retainingLib[n]
			isBodyWrite := strings.HasSuffix(n, ").SetBody") || strings.HasSuffix(n, ").Write") || strings.HasSuffix(n, ").AsyncWrite")
			if isBodyWrite {
				nWrite++
			}
			if !retaining {
				continue
			}
			nSites++
			args := core.CallArgs(call)
			for _, a := range args[1:] {
				if _, isSlice := a.Type().Underlying().(*types.Slice); !isSlice {
					continue
				}
				bi := bornOf(c, fn, a, call.Block(), sum, 0)
				if !bi.ok {
					c.OK(fmt.Sprintf("retained-not-pooled:%s:%s", core.FuncName(fn), core.ModName(n)), call.Pos(), fn, "a slice kept by a library call is not a pooled buffer", core.Expr(a))
					continue
				}
				// released in this function (directly or deferred)?
				released := ""
				for _, rc := range core.Calls(fn) {
					for _, ra := range releasedArgs(rc, rel) {
						if sameBuffer(ra, a) {
							released = c.Rel(rc.Pos())
						}
					}
				}
				c.Check(released == "", fmt.Sprintf("retained-then-released:%s:%s", core.FuncName(fn), core.ModName(n)), call.Pos(), fn,
					"a pooled buffer handed to a library call that keeps it is not released by this function ("+why+")", "released at "+released)
			}
		}
	}
	// the rule has nothing to say about today's tree unless such calls appear; its instance floor counts the response
	// write sites it scanned
	c.Notes = append(c.Notes, fmt.Sprintf("R20h: %d calls of slice-retaining library functions, %d response write sites scanned", nSites, nWrite))
	for i := 0; i < nWrite; i++ {
		c.RuleCount["R20h"]++
	}
}
