package rules

import (
	"fmt"
	"go/constant"
	"go/token"
	"go/types"
	"strings"

	"golang.org/x/tools/go/ssa"

	"mosverif/core"
)

// Rules added after seed round n ("a slip in initialisation or configuration wiring, or on an error, cancellation or
// clean-up path").

// ---------- R01h: an error wrapper receives a non-nil cause ----------

// sectionErr.Error() calls e.err.Error() unconditionally, and every listener logs decode errors with .Err(err): a
// sectionErr built around a nil cause panics the goroutine that reads the socket. Every call of newSectionErr (and
// every literal &sectionErr{…}) therefore passes a cause that is non-nil at that point: a package-level sentinel, a
// fresh errors.New / fmt.Errorf value, or a variable on the taken edge of `err != nil`.
func r01h(c *core.Ctx) {
	nse := c.Anchor("internal/dnsmsg", "newSectionErr")
	if nse == nil {
		return
	}
	n := 0
	check := func(fn *ssa.Function, at ssa.Instruction, v ssa.Value) {
		n++
		ok := true
		why := ""
		if core.NilAt(v, at.Block()) == core.NonNil {
			// the value itself was just tested (`if err != nil { return newSectionErr(…, err) }`), whatever merged into it
			c.OK(fmt.Sprintf("wrapped-cause-non-nil:%s#%d", core.FuncName(fn), n), at.Pos(), fn,
				"an error wrapper whose Error() dereferences its cause is built around a non-nil cause", "on the taken edge of a `!= nil` test of the cause")
			return
		}
		for _, o := range core.Origins(v, core.OriginOpts{}) {
			switch x := o.(type) {
			case *ssa.UnOp:
				if g, isG := x.X.(*ssa.Global); isG && x.Op == token.MUL {
					_ = g
					continue // sentinel
				}
			case *ssa.Call:
				switch core.CallName(x) {
				case "errors.New", "fmt.Errorf":
					continue
				}
			case *ssa.Const:
				if x.IsNil() {
					ok, why = false, "the cause is nil"
					continue
				}
			}
			if core.NilAt(o, at.Block()) != core.NonNil && core.NilAt(v, at.Block()) != core.NonNil {
				ok, why = false, "the cause "+core.Expr(o)+" is not known to be non-nil here (no dominating `!= nil` edge)"
			}
		}
		c.Check(ok, fmt.Sprintf("wrapped-cause-non-nil:%s#%d", core.FuncName(fn), n), at.Pos(), fn,
			"an error wrapper whose Error() dereferences its cause is built around a non-nil cause", why)
	}
	for _, fn := range c.SrcFuncs() {
		if fn.Pkg == nil || !strings.HasSuffix(fn.Pkg.Pkg.Path(), "/internal/dnsmsg") {
			continue
		}
		for _, call := range core.Calls(fn) {
			if core.StaticCallee(call) == nse {
				check(fn, call, core.CallArgs(call)[1])
			}
		}
		if fn == nse {
			continue
		}
		core.EachInstr(fn, func(_ *ssa.BasicBlock, _ int, in ssa.Instruction) {
			st, ok := in.(*ssa.Store)
			if !ok {
				return
			}
			if fa, ok := st.Addr.(*ssa.FieldAddr); ok {
				ref := core.FieldAddrRef(fa)
				if ref.Struct != nil && core.StructName(ref.Struct) == "sectionErr" && ref.Name == "err" {
					check(fn, st, st.Val)
				}
			}
		})
	}
	if n < 8 {
		c.Unknown("section-err-sites", 0, nil, "at least 8 constructions of a section error", fmt.Sprint(n))
	}
}

// ---------- R03h: no write deadline shorter than the request deadline on the net/http listener ----------

// net/http arms Server.WriteTimeout when the request header has been read; the handler answers SERVFAIL when its own
// request deadline (6 s) expires. A WriteTimeout at or below that deadline makes the late answer unwritable: the client
// gets no response. Checked on every store to a WriteTimeout field of a net/http.Server in the module: absent, or a
// constant greater than the handler's request timeout.
func r03h(c *core.Ctx) {
	hs := c.Anchor("app/router", "(*router).handleServerReq")
	if hs == nil {
		return
	}
	var reqTimeout int64
	for _, call := range core.Calls(hs) {
		if strings.HasPrefix(core.CallName(call), "context.WithTimeout") {
			if k, ok := core.ConstInt(core.CallArgs(call)[1]); ok {
				reqTimeout = k
			}
		}
	}
	if reqTimeout == 0 {
		c.Unknown("request-timeout", hs.Pos(), hs, "handleServerReq derives its context with a constant timeout", "not found")
		return
	}
	servers, n := 0, 0
	for _, fn := range c.SrcFuncs() {
		if fn.Pkg == nil || !core.IsModule(fn.Pkg.Pkg) {
			continue
		}
		core.EachInstr(fn, func(_ *ssa.BasicBlock, _ int, in ssa.Instruction) {
			st, ok := in.(*ssa.Store)
			if !ok {
				return
			}
			fa, ok := st.Addr.(*ssa.FieldAddr)
			if !ok {
				return
			}
			ref := core.FieldAddrRef(fa)
			if ref.Struct == nil || ref.Struct.Obj().Pkg() == nil || ref.Struct.Obj().Pkg().Path() != "net/http" || ref.Struct.Obj().Name() != "Server" {
				return
			}
			if ref.Name == "Handler" {
				servers++
			}
			if ref.Name != "WriteTimeout" {
				return
			}
			n++
			k, isC := core.ConstInt(st.Val)
			c.Check(isC && (k == 0 || k > reqTimeout), fmt.Sprintf("http-write-timeout-beyond-request-deadline:%s#%d", core.FuncName(fn), n), st.Pos(), fn,
				"a net/http write deadline (armed when the request is read) is longer than the handler's request deadline, or not set",
				fmt.Sprintf("WriteTimeout = %s, request deadline %dns", core.Expr(st.Val), reqTimeout))
		})
	}
	if servers < 1 {
		c.Unknown("http-servers", 0, nil, "at least one net/http.Server is configured in the module", "none found")
	} else {
		c.OK("http-servers", 0, nil, "net/http servers found", fmt.Sprintf("%d servers, %d WriteTimeout stores, request deadline %dns", servers, n, reqTimeout))
	}
}

// ---------- R11i: a regexp entry is compiled as written ----------

// Letter case is syntax in a regular expression (\D vs \d, \S vs \s, character classes): the expression handed to
// regexp.Compile is the entry's text itself, not the result of any call (case mapping, trimming, replacing).
func r11i(c *core.Ctx) {
	add := c.Anchor("internal/domain_matcher", "(*RegexpMatcher).Add")
	if add == nil {
		return
	}
	n := 0
	for _, call := range core.Calls(add) {
		nm := core.CallName(call)
		if nm != "regexp.Compile" && nm != "regexp.MustCompile" {
			continue
		}
		n++
		var bad []string
		identity := func(cl *ssa.Call, _ int) []ssa.Value {
			if core.CallName(cl) == "strings.Clone" { // a copy of the same text
				return []ssa.Value{cl.Call.Args[0]}
			}
			return nil
		}
		for _, o := range core.Origins(core.CallArgs(call)[0], core.OriginOpts{ThroughCall: identity}) {
			if p, ok := o.(*ssa.Parameter); ok && p == add.Params[1] {
				continue
			}
			bad = append(bad, core.Expr(o))
		}
		c.Check(len(bad) == 0, fmt.Sprintf("regexp-compiled-as-written#%d", n), call.Pos(), add,
			"the expression compiled for a regexp entry is the entry's text as written", "compiled from "+strings.Join(bad, ", "))
	}
	if n < 1 {
		c.Unknown("regexp-compile", add.Pos(), add, "RegexpMatcher.Add compiles its argument", "no regexp.Compile call")
	}
}

// ---------- R14m: no possibly-nil pointer is returned as an interface ----------

// A nil *T converted to an interface is a non-nil interface. The connection pool stores whatever non-nil Conn its Dial
// callback returns and calls Status() on it under the pool's mutex: a typed nil from a failed dial panics there and
// leaves the mutex locked, so every later exchange of that upstream hangs past its deadline. Checked on every return
// of a module function whose result is an interface: a pointer converted to it is not the nil constant, and when it is
// the pointer result of a (T, error) call it is returned only where that call's error is known to be nil (or the
// pointer known to be non-nil).
func r14m(c *core.Ctx) {
	n := 0
	for _, fn := range c.SrcFuncs() {
		if fn.Pkg == nil || !core.IsModule(fn.Pkg.Pkg) {
			continue
		}
		for _, b := range fn.Blocks {
			ret, ok := b.Instrs[len(b.Instrs)-1].(*ssa.Return)
			if !ok {
				continue
			}
			for ri, rv := range core.ReturnResults(ret) {
				if ri >= fn.Signature.Results().Len() {
					break
				}
				if _, isIface := fn.Signature.Results().At(ri).Type().Underlying().(*types.Interface); !isIface {
					continue
				}
				for _, mi := range ifaceConversions(rv) {
					if _, isPtr := mi.X.Type().Underlying().(*types.Pointer); !isPtr {
						continue
					}
					n++
					bad := ""
					for _, o := range core.Origins(mi.X, core.OriginOpts{}) {
						switch x := o.(type) {
						case *ssa.Const:
							if x.IsNil() {
								bad = "a nil " + mi.X.Type().String() + " is converted to " + fn.Signature.Results().At(ri).Type().String() + " (a non-nil interface holding a nil pointer)"
							}
						case *ssa.Extract:
							call, isCall := x.Tuple.(*ssa.Call)
							if !isCall || x.Index != 0 {
								continue
							}
							sig := call.Call.Signature()
							if sig.Results().Len() < 2 || sig.Results().At(sig.Results().Len()-1).Type().String() != "error" {
								continue
							}
							if core.NilAt(x, mi.Block()) == core.NonNil || core.NilAt(x, b) == core.NonNil {
								continue
							}
							// the sibling error is known nil where the conversion happens
							okErr := false
							if refs := call.Referrers(); refs != nil {
								for _, r := range *refs {
									if e, isE := r.(*ssa.Extract); isE && e.Index == sig.Results().Len()-1 {
										if core.NilAt(e, mi.Block()) == core.IsNil || core.NilAt(e, b) == core.IsNil {
											okErr = true
										}
									}
								}
							}
							if !okErr {
								bad = "the pointer result of " + core.CallName(call) + " is converted to an interface without its error (or the pointer) having been checked"
							}
						}
					}
					c.Check(bad == "", fmt.Sprintf("no-typed-nil-interface:%s#%d", core.FuncName(fn), n), ret.Pos(), fn,
						"a pointer returned as an interface is not a possibly-nil pointer (a nil *T makes a non-nil interface)", bad)
				}
			}
		}
	}
	if n < 10 {
		c.Unknown("iface-returns", 0, nil, "at least 10 pointer-to-interface conversions on returns", fmt.Sprint(n))
	}
}

// ifaceConversions: the MakeInterface instructions v derives from through phis.
func ifaceConversions(v ssa.Value) []*ssa.MakeInterface {
	var out []*ssa.MakeInterface
	seen := map[ssa.Value]bool{}
	var walk func(v ssa.Value)
	walk = func(v ssa.Value) {
		v = core.Unspill(v)
		if seen[v] {
			return
		}
		seen[v] = true
		switch x := v.(type) {
		case *ssa.MakeInterface:
			out = append(out, x)
		case *ssa.Phi:
			for _, e := range x.Edges {
				walk(e)
			}
		case *ssa.ChangeInterface:
			walk(x.X)
		}
	}
	walk(v)
	return out
}

// ---------- R15k: HTTP headers are read through the canonicalising accessors ----------

// http.Header keys are stored in canonical form; Header.Get/Values canonicalise the name they are given, indexing the
// map does not. The client-address header name comes from the configuration as the operator spelled it: read by index,
// `X-Real-IP` or `x-client-ip` is never found, the client address stays invalid, and an invalid address is exempt
// from client limiting (and gets no client group and no ECS). No module code indexes a net/http.Header (or
// textproto.MIMEHeader) with a non-constant key.
func r15k(c *core.Ctx) {
	gets, n := 0, 0
	isHeader := func(t types.Type) bool {
		nm, ok := t.(*types.Named)
		if !ok || nm.Obj().Pkg() == nil {
			return false
		}
		p := nm.Obj().Pkg().Path() + "." + nm.Obj().Name()
		return p == "net/http.Header" || p == "net/textproto.MIMEHeader"
	}
	for _, fn := range c.SrcFuncs() {
		if fn.Pkg == nil || !core.IsModule(fn.Pkg.Pkg) {
			continue
		}
		core.EachInstr(fn, func(_ *ssa.BasicBlock, _ int, in ssa.Instruction) {
			switch x := in.(type) {
			case *ssa.Lookup:
				if !isHeader(x.X.Type()) {
					return
				}
				n++
				k, isC := x.Index.(*ssa.Const)
				canon := false
				if isC && k.Value != nil && k.Value.Kind() == constant.String {
					s := constant.StringVal(k.Value)
					canon = s == canonicalHeader(s)
				}
				if call, isCall := core.Unspill(x.Index).(*ssa.Call); isCall {
					switch core.CallName(call) {
					case "net/http.CanonicalHeaderKey", "net/textproto.CanonicalMIMEHeaderKey":
						canon = true // the key was canonicalised by the library function Get itself uses
					}
				}
				c.Check(canon, fmt.Sprintf("header-read-canonical:%s#%d", core.FuncName(fn), n), x.Pos(), fn,
					"an HTTP header is read with Get/Values, or indexed with a constant canonical name", "indexed with "+core.Expr(x.Index))
			case ssa.CallInstruction:
				if nm := core.CallName(x); nm == "(net/http.Header).Get" || nm == "(net/http.Header).Values" {
					gets++
				}
			}
		})
	}
	if gets < 1 {
		c.Unknown("header-gets", 0, nil, "at least one Header.Get in the module", "none")
	} else {
		c.OK("header-gets", 0, nil, "headers are read through Header.Get/Values", fmt.Sprintf("%d accessor calls, %d direct lookups", gets, n))
	}
}

func canonicalHeader(s string) string {
	b := []byte(s)
	up := true
	for i, ch := range b {
		if up && 'a' <= ch && ch <= 'z' {
			b[i] = ch - 32
		} else if !up && 'A' <= ch && ch <= 'Z' {
			b[i] = ch + 32
		}
		up = ch == '-'
	}
	return string(b)
}

func init() {
	reg("C01", "", Rule{ID: "R01h", Doc: "an error wrapper whose Error() dereferences its cause is built around a non-nil cause", Floor: 8, AllVariants: true, Run: r01h})
	reg("C03", "", Rule{ID: "R03h", Doc: "no net/http write deadline at or below the handler's request deadline", Floor: 1, Run: r03h})
	reg("C11", "", Rule{ID: "R11i", Doc: "a regexp entry is compiled as written (no case mapping or other rewriting of the expression)", Floor: 1, Run: r11i})
	r14mR := Rule{ID: "R14m", Doc: "no possibly-nil pointer is returned as an interface (typed nil)", Floor: 10, AllVariants: true, Run: r14m}
	reg("C14", "", r14mR)
	reg("C18", "", r14mR)
	r15kR := Rule{ID: "R15k", Doc: "HTTP headers are read through the canonicalising accessors, not by indexing the map with a configured name", Floor: 1, Run: r15k}
	reg("C15", "", r15kR)
	reg("C12", "", r15kR)
	reg("C07", "", r15kR)
	reg("C09", "", Rule{ID: "R20g", Doc: "pooled raw records are reset completely (a recycled OPT with stale rdata eats the response's size budget)", Floor: 10, AllVariants: true, Run: r20g})
}
