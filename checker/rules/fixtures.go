package rules

// RunFixtures is replaced by the real harness in fixtures_run.go (kept as a thin wrapper so the
// driver does not depend on its details).
func RunFixtures(prop, dir string, all bool) (lines []string, failures []string) {
	return runFixtures(prop, dir, all)
}
