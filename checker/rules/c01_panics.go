package rules

import (
	"fmt"
	"go/token"
	"go/types"
	"strings"

	"golang.org/x/tools/go/ssa"

	"mosverif/core"
)

// netScope returns the module call graph, the network decode closure and its entry points.
func netScope(c *core.Ctx) (*modGraph, map[*ssa.Function]bool, []*ssa.Function) {
	g := buildModGraph(c)
	var roots []*ssa.Function
	for _, e := range networkEntries {
		var f *ssa.Function
		if e.opt {
			f = c.AnchorOpt(e.pkg, e.fn)
		} else {
			f = c.Anchor(e.pkg, e.fn)
		}
		if f != nil {
			roots = append(roots, f)
		}
	}
	return g, g.closure(roots), roots
}

// ---------- R01b: panic sources other than bounds ----------

// poolID names a sync.Pool by the variable or field that holds it.
func poolID(v ssa.Value) string {
	switch x := core.Strip(v).(type) {
	case *ssa.Global:
		return "global " + x.Pkg.Pkg.Path() + "." + x.Name()
	case *ssa.FieldAddr:
		return "field " + core.FieldAddrRef(x).String()
	}
	return ""
}

// poolProviders checks that everything a sync.Pool can hand out has the asserted type: the New function returns it
// on every path and every Put in the module stores it.
func poolProviders(c *core.Ctx, id string, want types.Type) (bool, string) {
	news, puts := 0, 0
	var bad []string
	checkFn := func(f *ssa.Function) {
		for _, ret := range returnsOf(f) {
			if len(ret.Results) != 1 {
				continue
			}
			mi, ok := ret.Results[0].(*ssa.MakeInterface)
			if !ok || !types.Identical(mi.X.Type(), want) {
				bad = append(bad, "New returns "+core.Expr(ret.Results[0])+" at "+c.Rel(ret.Pos()))
			}
		}
	}
	for _, fn := range c.SrcFuncs() {
		core.EachInstr(fn, func(_ *ssa.BasicBlock, _ int, in ssa.Instruction) {
			switch x := in.(type) {
			case *ssa.Store:
				fa, ok := x.Addr.(*ssa.FieldAddr)
				if !ok || core.FieldAddrRef(fa).Name != "New" || core.TypeName(fa.X.Type()) != "*sync.Pool" {
					return
				}
				if poolID(fa.X) != id && !allocFlowsToPool(fa.X, id) {
					return
				}
				news++
				switch f := x.Val.(type) {
				case *ssa.Function:
					checkFn(f)
				case *ssa.MakeClosure:
					checkFn(f.Fn.(*ssa.Function))
				default:
					bad = append(bad, "New is "+core.Expr(x.Val))
				}
			case ssa.CallInstruction:
				if core.CallName(x) == "(*sync.Pool).Put" && poolID(x.Common().Args[0]) == id {
					puts++
					mi, ok := x.Common().Args[1].(*ssa.MakeInterface)
					if !ok || !types.Identical(mi.X.Type(), want) {
						bad = append(bad, "Put of "+core.Expr(x.Common().Args[1])+" at "+c.Rel(x.Pos()))
					}
				}
			}
		})
	}
	if news == 0 {
		bad = append(bad, "no New function found (Get may return nil)")
	}
	return len(bad) == 0, fmt.Sprintf("%d New, %d Put sites all provide %s %s", news, puts, want, strings.Join(bad, "; "))
}

// allocFlowsToPool: the pool is built in a local composite literal that is then stored into the identified field
// (`&T{p: sync.Pool{New: ...}}`: the FieldAddr chain starts at the struct's allocation).
func allocFlowsToPool(x ssa.Value, id string) bool {
	fa, ok := core.Strip(x).(*ssa.FieldAddr)
	if !ok {
		return false
	}
	return "field "+core.FieldAddrRef(fa).String() == id
}

func r01b(c *core.Ctx) {
	_, set, _ := netScope(c)
	nAssert, nPanic, nMap, nChan, nDiv := 0, 0, 0, 0, 0
	for _, fn := range c.SrcFuncs() {
		if !set[fn] {
			continue
		}
		name := core.FuncName(fn)
		seq := map[string]int{}
		key := func(kind string) string {
			seq[kind]++
			return fmt.Sprintf("%s:%s#%d", kind, name, seq[kind])
		}
		core.EachInstr(fn, func(b *ssa.BasicBlock, _ int, in ssa.Instruction) {
			switch x := in.(type) {
			case *ssa.Panic:
				if x.Pos() == token.NoPos {
					return // go/ssa's synthetic panic of an empty select
				}
				nPanic++
				ok, why := assertionPanic(c, fn, x)
				c.Check(ok, key("panic"), x.Pos(), fn, "an explicit panic reachable from a network entry point is a state assertion whose condition the callers exclude", why)
			case *ssa.TypeAssert:
				if x.CommaOk {
					return
				}
				nAssert++
				ok, why := assertProvider(c, fn, x)
				c.Check(ok, key("type-assert"), x.Pos(), fn, "a single-result type assertion cannot fail: every provider of the value stores exactly "+x.AssertedType.String(), why)
			case *ssa.BinOp:
				if (x.Op == token.QUO || x.Op == token.REM) && isIntType(x.Type()) {
					if k, isC := core.ConstInt(x.Y); isC && k != 0 {
						return
					}
					nDiv++
					p := core.NewProver(fn, nil)
					p.Init()
					y := p.Env.Of(x.Y)
					ok, why := p.Prove(y.AddC(-1), b)
					c.Check(ok, key("div"), x.Pos(), fn, "integer divisor "+core.Expr(x.Y)+" > 0", why)
				}
				if (x.Op == token.SHL || x.Op == token.SHR) && !isUnsignedT(x.Y.Type()) {
					if k, isC := core.ConstInt(x.Y); isC && k >= 0 {
						return
					}
					nDiv++
					p := core.NewProver(fn, nil)
					p.Init()
					ok, why := p.Prove(p.Env.Of(x.Y), b)
					c.Check(ok, key("shift"), x.Pos(), fn, "signed shift count "+core.Expr(x.Y)+" >= 0", why)
				}
			case *ssa.MapUpdate:
				nMap++
				ok, why := mapNonNil(c, fn, x)
				c.Check(ok, key("map-store"), x.Pos(), fn, "a map that is stored into is never nil", why)
			case *ssa.Send:
				nChan++
				ok, why := neverClosed(c, x.Chan)
				c.Check(ok, key("send"), x.Pos(), fn, "a channel that is sent on is never closed", why)
			case ssa.CallInstruction:
				if core.CallName(x) == "builtin.close" {
					nChan++
					ok, why := closedOnce(c, fn, x)
					c.Check(ok, key("close"), x.Pos(), fn, "a channel is closed at most once and is not nil", why)
				}
			}
		})
	}
	// select sends
	for _, fn := range c.SrcFuncs() {
		if !set[fn] {
			continue
		}
		n := 0
		core.EachInstr(fn, func(_ *ssa.BasicBlock, _ int, in ssa.Instruction) {
			sel, ok := in.(*ssa.Select)
			if !ok {
				return
			}
			for _, st := range sel.States {
				if st.Dir == types.SendOnly {
					n++
					nChan++
					ok, why := neverClosed(c, st.Chan)
					c.Check(ok, fmt.Sprintf("select-send:%s#%d", core.FuncName(fn), n), sel.Pos(), fn, "a channel that is sent on is never closed", why)
				}
			}
		})
	}
	c.Notes = append(c.Notes, fmt.Sprintf("R01b: decode closure scanned for panic sources: %d single-result type assertions, %d explicit panics, %d map stores, %d channel sends/closes, %d non-constant divisions/shifts; make() sizes are bounds obligations of R01a", nAssert, nPanic, nMap, nChan, nDiv))
	if nAssert < 10 {
		c.Unknown("assert-sites", token.NoPos, nil, "at least 10 single-result type assertions are in the closure (pool getters)", fmt.Sprint(nAssert))
	}
}

// assertProvider decides a single-result type assertion by the providers of the asserted value.
func assertProvider(c *core.Ctx, fn *ssa.Function, ta *ssa.TypeAssert) (bool, string) {
	v := ta.X
	if ex, ok := v.(*ssa.Extract); ok {
		v = ex.Tuple
	}
	call, ok := v.(*ssa.Call)
	if !ok {
		return false, "the asserted value " + core.Expr(ta.X) + " is not the result of a recognised provider"
	}
	cn := core.CallName(call)
	switch {
	case cn == "(*sync.Pool).Get":
		id := poolID(call.Call.Args[0])
		if id == "" {
			return false, "unidentified pool " + core.Expr(call.Call.Args[0])
		}
		ok, why := poolProviders(c, id, ta.AssertedType)
		return ok, id + ": " + why
	case call.Call.IsInvoke() && call.Call.Method.Name() == "Context" && strings.HasSuffix(core.TypeName(call.Call.Value.Type()), "gnet/v2.Conn"):
		return gnetContextProviders(c, ta.AssertedType)
	case cn == "(*github.com/IrineSistiana/connpool.Pool).Get":
		return connpoolProviders(c, ta.AssertedType)
	case strings.HasSuffix(cn, ".LocalAddr") && recvTypeName(call) == "*net.UDPConn" && ta.AssertedType.String() == "*net.UDPAddr":
		// net.UDPConn.LocalAddr returns the *UDPAddr of the bound socket; runs once when the listener thread starts, before any input
		return true, "LocalAddr of a *net.UDPConn is a *net.UDPAddr (package net); evaluated at thread start, before any datagram is read"
	}
	return false, "no provider rule for " + cn
}

// recvTypeName: the static type of the receiver expression, looking through the embedded-field address of a promoted method.
func recvTypeName(call *ssa.Call) string {
	if len(call.Call.Args) == 0 {
		return ""
	}
	a := core.Strip(call.Call.Args[0])
	if fa, ok := a.(*ssa.FieldAddr); ok {
		return core.TypeName(fa.X.Type())
	}
	return core.TypeName(a.Type())
}

func gnetContextProviders(c *core.Ctx, want types.Type) (bool, string) {
	n := 0
	var bad []string
	for _, fn := range c.SrcFuncs() {
		for _, call := range core.Calls(fn) {
			if !call.Common().IsInvoke() || call.Common().Method.Name() != "SetContext" {
				continue
			}
			n++
			mi, ok := call.Common().Args[0].(*ssa.MakeInterface)
			if !ok || !types.Identical(mi.X.Type(), want) {
				bad = append(bad, "SetContext("+core.Expr(call.Common().Args[0])+") at "+c.Rel(call.Pos()))
			}
		}
	}
	// OnOpen installs the context on every path
	if oo := c.AnchorOpt("app/router", "(*gnetServer).OnOpen"); oo != nil && len(oo.Blocks) > 0 {
		miss := core.MustPass(oo, oo.Blocks[0].Instrs[0], core.IsReturn, func(in ssa.Instruction) bool {
			ci, ok := in.(ssa.CallInstruction)
			return ok && ci.Common().IsInvoke() && ci.Common().Method.Name() == "SetContext"
		})
		if miss != nil {
			bad = append(bad, "OnOpen can return without SetContext: "+c.Rel(miss.Pos()))
		}
	} else {
		bad = append(bad, "OnOpen not found")
	}
	c.Assume("A4: gnet calls OnOpen before the first OnTraffic of a connection and keeps the context it was given")
	return n > 0 && len(bad) == 0, fmt.Sprintf("%d SetContext sites store %s; OnOpen sets it on every path %s", n, want, strings.Join(bad, "; "))
}

func connpoolProviders(c *core.Ctx, want types.Type) (bool, string) {
	n := 0
	var bad []string
	for _, fn := range c.SrcFuncs() {
		core.EachInstr(fn, func(_ *ssa.BasicBlock, _ int, in ssa.Instruction) {
			st, ok := in.(*ssa.Store)
			if !ok {
				return
			}
			fa, ok := st.Addr.(*ssa.FieldAddr)
			if !ok || core.FieldAddrRef(fa).Name != "Dial" || !strings.HasSuffix(core.TypeName(fa.X.Type()), "connpool.Opts") {
				return
			}
			n++
			var f *ssa.Function
			switch v := st.Val.(type) {
			case *ssa.MakeClosure:
				f = v.Fn.(*ssa.Function)
			case *ssa.Function:
				f = v
			}
			if f == nil {
				bad = append(bad, "Dial is "+core.Expr(st.Val))
				return
			}
			// a method value (`t.dial`): go/ssa wraps it in a synthetic function that forwards to the method
			if f.Synthetic != "" {
				for _, c2 := range core.Calls(f) {
					if g := core.StaticCallee(c2); g != nil && g.Blocks != nil {
						f = g
					}
				}
			}
			for _, ret := range returnsOf(f) {
				for _, r := range core.Origins(core.ReturnResults(ret)[0], core.OriginOpts{ThroughCall: throughHelpers()}) {
					if core.IsNilConst(r) {
						continue
					}
					if !types.Identical(core.Strip(r).Type(), want) {
						bad = append(bad, "Dial returns "+core.Expr(r)+" ("+r.Type().String()+") at "+c.Rel(ret.Pos()))
					}
				}
			}
		})
	}
	c.Assume("connpool.Pool.Get returns only connections produced by its Opts.Dial")
	return n > 0 && len(bad) == 0, fmt.Sprintf("%d connpool Dial functions return %s %s", n, want, strings.Join(bad, "; "))
}

// mapNonNil: the map is made in this function, guarded by a nil test, or a field that every constructor of its
// struct initialises with make.
func mapNonNil(c *core.Ctx, fn *ssa.Function, mu *ssa.MapUpdate) (bool, string) {
	m := mu.Map
	if core.NilAt(m, mu.Block()) == core.NonNil {
		return true, "guarded by a dominating != nil test"
	}
	var why []string
	for _, o := range core.Origins(m, core.OriginOpts{}) {
		switch x := o.(type) {
		case *ssa.MakeMap:
			continue
		case *ssa.UnOp:
			fa, ok := x.X.(*ssa.FieldAddr)
			if !ok {
				return false, "origin " + core.Expr(o)
			}
			ref := core.FieldAddrRef(fa)
			ok2, w := fieldAlwaysMade(c, ref)
			if !ok2 {
				return false, w
			}
			why = append(why, w)
		default:
			if core.NilAt(o, mu.Block()) == core.NonNil {
				continue
			}
			return false, "origin " + core.Expr(o) + " may be nil"
		}
	}
	return true, strings.Join(why, "; ")
}

// fieldAlwaysMade: every store to the field stores a make(map) result and every allocation of the struct type
// happens in a function that stores the field (constructor), so no instance with a nil map exists.
func fieldAlwaysMade(c *core.Ctx, ref core.FieldRef) (bool, string) {
	if ref.Struct == nil {
		return false, "anonymous struct field " + ref.Name
	}
	stores := 0
	ctor := map[*ssa.Function]bool{}
	var bad []string
	for _, fn := range c.SrcFuncs() {
		core.EachInstr(fn, func(_ *ssa.BasicBlock, _ int, in ssa.Instruction) {
			st, ok := in.(*ssa.Store)
			if !ok {
				return
			}
			fa, ok := st.Addr.(*ssa.FieldAddr)
			if !ok {
				return
			}
			r := core.FieldAddrRef(fa)
			if r.Name != ref.Name || r.Struct == nil || r.Struct.Obj() != ref.Struct.Obj() {
				return
			}
			stores++
			if _, isMake := st.Val.(*ssa.MakeMap); !isMake {
				bad = append(bad, "store of "+core.Expr(st.Val)+" at "+c.Rel(st.Pos()))
				return
			}
			ctor[fn] = true
		})
	}
	allocs := 0
	for _, fn := range c.SrcFuncs() {
		core.EachInstr(fn, func(_ *ssa.BasicBlock, _ int, in ssa.Instruction) {
			al, ok := in.(*ssa.Alloc)
			if !ok {
				return
			}
			n, _ := derefNamed(al.Type())
			if n == nil || n.Obj() != ref.Struct.Obj() {
				return
			}
			allocs++
			if !ctor[fn] {
				bad = append(bad, core.FuncName(fn)+" allocates "+core.StructName(ref.Struct)+" without making ."+ref.Name)
			}
		})
	}
	return stores > 0 && allocs > 0 && len(bad) == 0, fmt.Sprintf("%s: %d stores all make(map), %d allocations all in constructors %s", ref.String(), stores, allocs, strings.Join(bad, "; "))
}

// chanID: the allocation or field a channel value comes from.
func chanOrigins(v ssa.Value) []ssa.Value {
	return core.Origins(v, core.OriginOpts{})
}

// neverClosed: no close() in the module is applied to a channel from the same origin (make site or field).
func neverClosed(c *core.Ctx, ch ssa.Value) (bool, string) {
	ids := map[string]bool{}
	for _, o := range chanOrigins(ch) {
		ids[chanKey(o)] = true
	}
	var bad []string
	for _, fn := range c.SrcFuncs() {
		for _, call := range core.CallsNamed(fn, "builtin.close") {
			for _, o := range chanOrigins(call.Common().Args[0]) {
				if ids[chanKey(o)] {
					bad = append(bad, "closed at "+c.Rel(call.Pos()))
				}
			}
		}
	}
	var ks []string
	for k := range ids {
		ks = append(ks, k)
	}
	return len(bad) == 0 && len(ids) > 0, "channel " + strings.Join(ks, ",") + ": no close() of it in the module " + strings.Join(bad, "; ")
}

func chanKey(o ssa.Value) string {
	switch x := o.(type) {
	case *ssa.MakeChan:
		return fmt.Sprintf("make@%d", x.Pos())
	case *ssa.UnOp:
		if fa, ok := x.X.(*ssa.FieldAddr); ok {
			return "field " + core.FieldAddrRef(fa).String()
		}
	case *ssa.Parameter:
		return "param " + x.Parent().String() + "." + x.Name()
	}
	return "value " + core.Expr(o)
}

// closedOnce: the closed channel is a field of a struct instance created together with the channel; the only close
// site of that field is in a function that is started exactly once per instance (a single `go` at the allocation).
func closedOnce(c *core.Ctx, fn *ssa.Function, call ssa.CallInstruction) (bool, string) {
	arg := call.Common().Args[0]
	u, ok := arg.(*ssa.UnOp)
	if !ok {
		return false, "closed value " + core.Expr(arg)
	}
	fa, ok := u.X.(*ssa.FieldAddr)
	if !ok {
		return false, "closed value " + core.Expr(arg)
	}
	ref := core.FieldAddrRef(fa)
	holder, isParam := core.Strip(fa.X).(*ssa.Parameter)
	if !isParam {
		return false, "the struct holding the channel is not a parameter: " + core.Expr(fa.X)
	}
	// single close site of this field in the module
	sites := 0
	for _, f := range c.SrcFuncs() {
		for _, cl := range core.CallsNamed(f, "builtin.close") {
			if uu, ok := cl.Common().Args[0].(*ssa.UnOp); ok {
				if ff, ok := uu.X.(*ssa.FieldAddr); ok && core.FieldAddrRef(ff).String() == ref.String() {
					sites++
				}
			}
		}
	}
	if sites != 1 {
		return false, fmt.Sprintf("%d close sites of %s", sites, ref.String())
	}
	// at most one close per execution of fn: the close is not in a loop
	if core.Reach(fn, call, func(in ssa.Instruction) bool { return in == ssa.Instruction(call) }, nil) != nil {
		return false, "the close can execute twice in one call"
	}
	// fn runs once per instance: every call site passes a struct allocated in the caller, whose channel field is
	// made there, and the site is not re-executed for the same allocation
	pi := -1
	for i, p := range fn.Params {
		if p == holder {
			pi = i
		}
	}
	sitesOf := c.CallSitesOf(fn)
	if len(sitesOf) == 0 {
		return false, "no static call site of " + core.FuncName(fn)
	}
	for _, s := range sitesOf {
		a := core.CallArgs(s.Call)[pi]
		al, ok := core.Strip(a).(*ssa.Alloc)
		if !ok {
			return false, "instance passed at " + c.Rel(s.Call.Pos()) + " is not allocated there: " + core.Expr(a)
		}
		// the channel field is initialised with make in the caller
		made := false
		for _, r := range *al.Referrers() {
			if f2, ok := r.(*ssa.FieldAddr); ok && core.FieldAddrRef(f2).Name == ref.Name {
				for _, rr := range *f2.Referrers() {
					if st, ok := rr.(*ssa.Store); ok {
						if _, isMk := st.Val.(*ssa.MakeChan); isMk {
							made = true
						}
					}
				}
			}
		}
		if !made {
			return false, "channel field not made at the allocation in " + core.FuncName(s.Fn)
		}
		// the call site cannot be reached again without re-executing the allocation
		again := core.Reach(s.Fn, s.Call, func(in ssa.Instruction) bool { return in == ssa.Instruction(s.Call) }, func(in ssa.Instruction) bool { return in == ssa.Instruction(al) })
		if again != nil {
			return false, "the call at " + c.Rel(s.Call.Pos()) + " can repeat for one instance"
		}
		// other uses of the instance in the caller do not pass it to a second closer: fn is the only callee with a close
	}
	return true, fmt.Sprintf("%s is closed only in %s, once per call; every call site (%d) passes a freshly allocated instance with a made channel", ref.String(), core.FuncName(fn), len(sitesOf))
}

func isIntType(t types.Type) bool {
	b, ok := t.Underlying().(*types.Basic)
	return ok && b.Info()&types.IsInteger != 0
}

func isUnsignedT(t types.Type) bool {
	b, ok := t.Underlying().(*types.Basic)
	return ok && b.Info()&types.IsUnsigned != 0
}

// ---------- assertion panics: the state they test is excluded by the protocol ----------

var protocolMemo = map[*core.Ctx]map[string][2]string{}

// assertionPanic: the panic is guarded by a test of a boolean state field of the receiver; a protocol proof for that
// field shows every caller reaches the method in the other state.
func assertionPanic(c *core.Ctx, fn *ssa.Function, pn *ssa.Panic) (bool, string) {
	if ok, why := platformStub(c, fn, pn); ok {
		return true, why
	}
	field := ""
	var fields []string
	for _, cnd := range core.CondsAt(pn.Block()) {
		v := cnd.Cond
		for {
			u, ok := v.(*ssa.UnOp)
			if ok && u.Op == token.NOT {
				v = u.X
				continue
			}
			break
		}
		if u, ok := v.(*ssa.UnOp); ok && u.Op == token.MUL {
			if fa, ok := u.X.(*ssa.FieldAddr); ok && len(fn.Params) > 0 && core.Strip(fa.X) == ssa.Value(fn.Params[0]) {
				fields = append(fields, core.FieldAddrRef(fa).String())
			}
		}
	}
	if len(fields) == 0 {
		return false, "the panic is not guarded by a state field of the receiver"
	}
	var proto func(c *core.Ctx) []string
	for _, f := range fields {
		if pr, ok := stateProtocols[f]; ok {
			proto, field = pr, f
		}
	}
	if proto == nil {
		return false, "no protocol declared for state fields " + strings.Join(fields, ", ")
	}
	if protocolMemo[c] == nil {
		protocolMemo[c] = map[string][2]string{}
	}
	if r, ok := protocolMemo[c][field]; ok {
		return r[0] == "ok", r[1]
	}
	bad := proto(c)
	res := [2]string{"ok", "state field " + field + ": protocol verified (writers, call sites of the asserting methods, idle-set membership, one release per acquisition)"}
	if len(bad) > 0 {
		res = [2]string{"bad", "state field " + field + ": " + strings.Join(bad, "; ")}
	}
	protocolMemo[c][field] = res
	return res[0] == "ok", res[1]
}

// platformStub: fn is a "not implemented on this platform" stub (its body is a single panic) and every call site is
// guarded by a boolean configuration field that can only be true when a capability probe returned true — and the
// probe returns the constant false in this build variant.
func platformStub(c *core.Ctx, fn *ssa.Function, pn *ssa.Panic) (bool, string) {
	if len(fn.Blocks) != 1 || fn.Blocks[0].Instrs[len(fn.Blocks[0].Instrs)-1] != ssa.Instruction(pn) {
		return false, ""
	}
	for _, in := range fn.Blocks[0].Instrs {
		switch in.(type) {
		case *ssa.Panic, *ssa.MakeInterface, *ssa.DebugRef:
		default:
			return false, ""
		}
	}
	sites := c.CallSitesOf(fn)
	if len(sites) == 0 {
		return false, ""
	}
	var flags []string
	for _, s := range sites {
		var guard *ssa.FieldAddr
		for _, cnd := range core.CondsAt(s.Call.Block()) {
			if !cnd.Val {
				continue
			}
			if u, ok := cnd.Cond.(*ssa.UnOp); ok && u.Op == token.MUL {
				if fa, ok := u.X.(*ssa.FieldAddr); ok {
					guard = fa
				}
			}
		}
		if guard == nil {
			return false, "call of the stub at " + c.Rel(s.Call.Pos()) + " is not guarded by a configuration flag"
		}
		ref := core.FieldAddrRef(guard)
		if ref.Struct == nil {
			return false, ""
		}
		// every store to the flag is `probe() && …` with a probe that is constantly false here
		n := 0
		for _, f := range c.SrcFuncs() {
			bad := ""
			core.EachInstr(f, func(_ *ssa.BasicBlock, _ int, in ssa.Instruction) {
				st, ok := in.(*ssa.Store)
				if !ok {
					return
				}
				fa, ok := st.Addr.(*ssa.FieldAddr)
				if !ok {
					return
				}
				r := core.FieldAddrRef(fa)
				if r.Name != ref.Name || r.Struct == nil || r.Struct.Obj() != ref.Struct.Obj() {
					return
				}
				n++
				for _, o := range core.Origins(st.Val, core.OriginOpts{}) {
					if k, isC := core.ConstBool(o); isC && !k {
						continue
					}
					// any other origin must sit behind the true edge of a constantly-false probe
					oi, ok := o.(ssa.Instruction)
					okProbe := false
					if ok {
						for _, cnd := range core.CondsAt(oi.Block()) {
							if call, isCall := cnd.Cond.(*ssa.Call); isCall && cnd.Val && alwaysFalse(core.StaticCallee(call)) {
								okProbe = true
							}
						}
					}
					if !okProbe {
						bad = "flag " + ref.String() + " is set from " + core.Expr(o) + " at " + c.Rel(st.Pos())
					}
				}
			})
			if bad != "" {
				return false, bad
			}
		}
		if n == 0 {
			return false, "no store to flag " + ref.String()
		}
		flags = append(flags, ref.String())
	}
	return true, fmt.Sprintf("platform stub: all %d call sites are guarded by %s, which is only ever set to `probe() && …` where the probe returns the constant false in this build variant", len(sites), strings.Join(dedup(flags), ", "))
}

func alwaysFalse(f *ssa.Function) bool {
	if f == nil || f.Blocks == nil {
		return false
	}
	rets := returnsOf(f)
	if len(rets) == 0 {
		return false
	}
	for _, r := range rets {
		if len(r.Results) != 1 {
			return false
		}
		if k, isC := core.ConstBool(r.Results[0]); !isC || k {
			return false
		}
	}
	return true
}

var stateProtocols = map[string]func(c *core.Ctx) []string{
	"reusableConn.serving": servingProtocol,
}

// servingProtocol proves: exitIdle is called only on idle connections, enterIdle only on serving ones.
func servingProtocol(c *core.Ctx) []string {
	var bad []string
	fail := func(f string, a ...any) { bad = append(bad, fmt.Sprintf(f, a...)) }
	exitIdle := c.Anchor(tpkg, "(*reusableConn).exitIdle")
	enterIdle := c.Anchor(tpkg, "(*reusableConn).enterIdle")
	rel := c.Anchor(tpkg, "(*ReuseConnTransport).releaseConn")
	newRC := c.Anchor(tpkg, "newReusableConn")
	exCtx := c.Anchor(tpkg, "(*ReuseConnTransport).exchangeConnCtx")
	gic := c.Anchor(tpkg, "(*ReuseConnTransport).getIdleConn")
	ad := c.Anchor(tpkg, "(*ReuseConnTransport).asyncDial")
	if exitIdle == nil || enterIdle == nil || rel == nil || newRC == nil || exCtx == nil || gic == nil || ad == nil {
		return []string{"anchors missing"}
	}
	// P1 writers of the state field
	for _, st := range c.FieldStores("internal/upstream/transport", "reusableConn", "serving") {
		k, isC := core.ConstBool(st.Store.Val)
		switch {
		case st.Fn == exitIdle && isC && k:
		case st.Fn == enterIdle && isC && !k:
		default:
			fail("serving is written in %s (%s)", core.FuncName(st.Fn), core.Expr(st.Store.Val))
		}
		if held, _ := lockHeldAt(st.Fn, st.Store, ".m"); !held {
			fail("serving written without the connection mutex in %s", core.FuncName(st.Fn))
		}
	}
	isCallOn := func(in ssa.Instruction, target *ssa.Function, recv ssa.Value) bool {
		ci, ok := in.(ssa.CallInstruction)
		if !ok || core.StaticCallee(ci) != target {
			return false
		}
		return recv == nil || core.Strip(core.CallArgs(ci)[0]) == core.Strip(recv)
	}
	freshOrigin := func(v ssa.Value) *ssa.Call {
		os := core.Origins(v, core.OriginOpts{})
		var only *ssa.Call
		for _, o := range os {
			if core.IsNilConst(o) {
				continue
			}
			call, ok := o.(*ssa.Call)
			if !ok || core.StaticCallee(call) != newRC || only != nil {
				return nil
			}
			only = call
		}
		return only
	}
	// P2 exitIdle call sites: a fresh connection, or one just removed from the idle set under the transport lock
	for _, s := range c.CallSitesOf(exitIdle) {
		recv := core.CallArgs(s.Call)[0]
		if o := freshOrigin(recv); o != nil {
			// exactly one exitIdle between creation and here
			again := core.Reach(s.Fn, o, func(in ssa.Instruction) bool { return in == ssa.Instruction(s.Call) }, nil)
			second := core.Reach(s.Fn, s.Call, func(in ssa.Instruction) bool { return isCallOn(in, exitIdle, nil) }, func(in ssa.Instruction) bool { return in == ssa.Instruction(o) })
			if again == nil || second != nil {
				fail("exitIdle at %s: not exactly once after newReusableConn", c.Rel(s.Call.Pos()))
			}
			continue
		}
		ok := false
		for _, op := range mapOps(c, "ReuseConnTransport", "idleConns") {
			if op.Fn == s.Fn && op.Kind == "delete" && core.Strip(op.Key) == core.Strip(recv) && core.InstrDominates(op.In, s.Call) {
				if ex, isEx := core.Strip(recv).(*ssa.Extract); isEx {
					if nx, isNext := ex.Tuple.(*ssa.Next); isNext {
						if rg, isRange := nx.Iter.(*ssa.Range); isRange && core.IsFieldLoad(core.Strip(rg.X), "ReuseConnTransport", "idleConns") {
							ok = true
						}
					}
				}
			}
		}
		if held, _ := lockHeldAt(s.Fn, s.Call, ".m"); !held {
			ok = false
		}
		if !ok {
			fail("exitIdle at %s: the receiver is neither fresh nor taken out of the idle set under the lock", c.Rel(s.Call.Pos()))
		}
	}
	// P3 members of the idle set are idle: every insert is preceded, on every feasible path, by enterIdle on the key
	for _, op := range mapOps(c, "ReuseConnTransport", "idleConns") {
		if op.Kind != "update" {
			continue
		}
		if op.Fn != rel {
			fail("idle-set insert outside releaseConn at %s", c.Rel(op.In.Pos()))
			continue
		}
		// every feasible path to the insert (branches on one condition value taken consistently) passes enterIdle
		miss := reachConsistent(rel, nil, func(in ssa.Instruction) bool { return in == op.In }, func(in ssa.Instruction) bool {
			return isCallOn(in, enterIdle, op.Key)
		})
		if miss != nil {
			fail("idle-set insert at %s reachable without enterIdle on the inserted connection", c.Rel(op.In.Pos()))
		}
	}
	// P4 enterIdle call sites: only releaseConn, on its parameter, once
	for _, s := range c.CallSitesOf(enterIdle) {
		if s.Fn != rel || core.Strip(core.CallArgs(s.Call)[0]) != ssa.Value(rel.Params[1]) {
			fail("enterIdle called at %s (only releaseConn may, on the connection it releases)", c.Rel(s.Call.Pos()))
		}
		if core.Reach(rel, s.Call, func(in ssa.Instruction) bool { return isCallOn(in, enterIdle, nil) }, nil) != nil {
			fail("enterIdle can run twice in releaseConn")
		}
	}
	// servingAt: the value had exitIdle called on it (same function, dominating) after its creation
	servingLocal := func(fn *ssa.Function, v ssa.Value, at ssa.Instruction) bool {
		def, ok := v.(ssa.Instruction)
		if !ok {
			return false
		}
		// every path from the definition to `at` passes an exitIdle call on the value
		return core.Reach(fn, def, func(in ssa.Instruction) bool { return in == at }, func(in ssa.Instruction) bool { return isCallOn(in, exitIdle, v) }) == nil &&
			core.Reach(fn, def, func(in ssa.Instruction) bool { return in == at }, nil) != nil
	}
	// serving-returning functions: getIdleConn (R06a: returned only when exitIdle() == false) and asyncDial
	// (returns what its worker sends: nil or a fresh connection after exitIdle)
	for _, ret := range returnsOf(gic) {
		r := core.ReturnResults(ret)[0]
		for _, o := range core.Origins(r, core.OriginOpts{}) {
			if core.IsNilConst(o) {
				continue
			}
			if !servingLocal(gic, o, ret) || !hasCond(ret.Block(), ".exitIdle()", false) {
				fail("getIdleConn returns %s without a successful exitIdle", core.Expr(o))
			}
		}
	}
	sends := 0
	for _, an := range closuresOf(ad) {
		core.EachInstr(an, func(_ *ssa.BasicBlock, _ int, in ssa.Instruction) {
			sel, ok := in.(*ssa.Select)
			if !ok {
				return
			}
			for _, st := range sel.States {
				if st.Dir != types.SendOnly {
					continue
				}
				sends++
				for _, o := range core.Origins(st.Send, core.OriginOpts{}) {
					if core.IsNilConst(o) {
						continue
					}
					if call, ok := o.(*ssa.Call); ok && core.StaticCallee(call) == newRC {
						if !servingLocal(an, call, sel) {
							fail("asyncDial's worker sends a connection without exitIdle")
						}
						continue
					}
					if _, isStruct := o.Type().Underlying().(*types.Struct); isStruct {
						continue
					}
					if _, isErr := o.Type().Underlying().(*types.Interface); isErr {
						continue
					}
					if _, isCall := o.(*ssa.Call); isCall && o.Type().String() == "error" {
						continue
					}
				}
			}
		})
	}
	if sends == 0 {
		fail("asyncDial's worker has no send")
	}
	servingFns := map[*ssa.Function]bool{gic: true, ad: true}
	holderSites, workerSites := 0, 0
	// P5/P6 releaseConn call sites: a serving connection, released once
	for _, s := range c.CallSitesOf(rel) {
		conn := core.CallArgs(s.Call)[1]
		where := c.Rel(s.Call.Pos())
		if core.Reach(s.Fn, s.Call, func(in ssa.Instruction) bool { return isCallOn(in, rel, nil) }, nil) != nil {
			fail("releaseConn at %s can be followed by a second releaseConn in the same activation", where)
		}
		if o := freshOrigin(conn); o != nil {
			if !servingLocal(s.Fn, o, s.Call) {
				fail("releaseConn at %s: fresh connection without exitIdle", where)
			}
			// exclusive with handing the connection to the caller: no select send after/before on the same path
			if core.Reach(s.Fn, s.Call, func(in ssa.Instruction) bool { _, ok := in.(*ssa.Select); return ok }, nil) != nil {
				fail("releaseConn at %s can be followed by handing the same connection out", where)
			}
			continue
		}
		var par *ssa.Parameter
		okPar := true
		isWorker := s.Fn.Parent() == exCtx
		for _, w := range core.AliasedClosures(exCtx) {
			if w == s.Fn {
				isWorker = true
			}
		}
		for _, o := range core.Origins(conn, core.OriginOpts{}) {
			pp, isPar := o.(*ssa.Parameter)
			// a worker that is a named function receives the connection as an argument of its `go` statement
			if isPar && pp.Parent() == s.Fn && s.Fn.Parent() == nil && isWorker {
				k := -1
				for i, q := range s.Fn.Params {
					if q == pp {
						k = i
					}
				}
				var bound ssa.Value
				core.EachInstr(exCtx, func(_ *ssa.BasicBlock, _ int, in ssa.Instruction) {
					if g, isGo := in.(*ssa.Go); isGo && core.StaticCallee(g) == s.Fn {
						if a := core.CallArgs(g); k >= 0 && k < len(a) {
							bound = a[k]
						}
					}
				})
				if bp, ok := core.Strip(bound).(*ssa.Parameter); bound != nil && ok {
					pp = bp
				}
			}
			if !isPar || pp.Parent() != exCtx || (par != nil && par != pp) {
				okPar = false
				break
			}
			par = pp
		}
		if !okPar || par == nil || (!isWorker && s.Fn != exCtx) {
			fail("releaseConn at %s: connection %s is neither fresh nor exchangeConnCtx's parameter", where, core.Expr(conn))
			continue
		}
		if s.Fn == exCtx {
			holderSites++
		} else {
			workerSites++
		}
		// the closure is spawned once per exchangeConnCtx activation
		spawns := 0
		core.EachInstr(exCtx, func(_ *ssa.BasicBlock, _ int, in ssa.Instruction) {
			if f, _ := spawnedClosure(in); f == s.Fn {
				spawns++
				if core.Reach(exCtx, in, func(x ssa.Instruction) bool { return x == in }, nil) != nil {
					fail("exchangeConnCtx spawns its worker in a loop")
				}
			}
		})
		if spawns != 1 && s.Fn != exCtx {
			fail("exchangeConnCtx spawns the releasing worker %d times", spawns)
		}
		pi := 0
		for i, p := range exCtx.Params {
			if p == par {
				pi = i
			}
		}
		for _, cs := range c.CallSitesOf(exCtx) {
			a := core.CallArgs(cs.Call)[pi]
			var defs []ssa.Instruction
			for _, o := range core.Origins(a, core.OriginOpts{}) {
				if ex, isEx := o.(*ssa.Extract); isEx && ex.Index == 0 {
					o = ex.Tuple
				}
				call, ok := o.(*ssa.Call)
				if !ok || !servingFns[core.StaticCallee(call)] {
					fail("exchangeConnCtx at %s is given %s (not from getIdleConn/asyncDial)", c.Rel(cs.Call.Pos()), core.Expr(o))
					continue
				}
				defs = append(defs, call)
			}
			// a new acquisition before each use
			rep := core.Reach(cs.Fn, cs.Call, func(in ssa.Instruction) bool { return isCallOn(in, exCtx, nil) || isCallOn(in, rel, nil) }, func(in ssa.Instruction) bool {
				for _, d := range defs {
					if in == d {
						return true
					}
				}
				return false
			})
			if rep != nil || len(defs) == 0 {
				fail("exchangeConnCtx at %s can reuse a connection without re-acquiring it", c.Rel(cs.Call.Pos()))
			}
			// the holder does not use the connection otherwise (no second exchange, no release of its own)
			for _, o := range core.Origins(a, core.OriginOpts{}) {
				_ = o
			}
		}
	}
	if holderSites > 0 && workerSites > 0 {
		fail("the connection is released both by exchangeConnCtx and by its worker goroutine (two releases per acquisition)")
	}
	c.Assume("a fresh reusableConn's idle timer (>= 1 s) does not fire between newReusableConn and the exitIdle that follows it in asyncDial")
	return bad
}
