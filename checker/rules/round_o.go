package rules

import (
	"fmt"
	"go/token"
	"go/types"
	"strings"

	"golang.org/x/tools/go/ssa"

	"mosverif/core"
)

// Rules added after seed round o ("a contract slip between two places: one side changes what it returns, owns, accepts
// or guarantees, a caller or sibling still relies on the old contract").

// ---------- R14n: a worker blocked on a stream without a deadline is unblocked by the caller's Done arm ----------

// exchangeStream's worker writes the query and reads the reply with no deadline on the stream; the only thing that ends
// a stuck read or write when the caller gives up is the caller's `<-ctx.Done()` arm cancelling the stream in that
// direction. Checked for every function of the transports that starts a goroutine using a value with CancelRead /
// CancelWrite methods (a QUIC stream) and selects on a context's Done: on the Done arm, both CancelRead and CancelWrite
// are called on that same stream.
func r14n(c *core.Ctx) {
	n := 0
	for _, fn := range c.SrcFuncs() {
		if fn.Pkg == nil || !strings.HasSuffix(fn.Pkg.Pkg.Path(), "/internal/upstream/transport") {
			continue
		}
		// streams handed to goroutines started here
		streams := map[ssa.Value]bool{}
		for _, call := range core.Calls(fn) {
			g, ok := call.(*ssa.Go)
			if !ok {
				continue
			}
			mc, ok := g.Call.Value.(*ssa.MakeClosure)
			if !ok {
				continue
			}
			for _, b := range mc.Bindings {
				v := core.Unspill(b)
				t := v.Type()
				if p, isP := t.(*types.Pointer); isP {
					if al, isAl := v.(*ssa.Alloc); isAl {
						_ = al
						t = p.Elem()
					}
				}
				if hasMethod(t, "CancelRead") && hasMethod(t, "CancelWrite") {
					streams[b] = true
				}
			}
		}
		if len(streams) == 0 {
			continue
		}
		core.EachInstr(fn, func(_ *ssa.BasicBlock, _ int, in ssa.Instruction) {
			sel, ok := in.(*ssa.Select)
			if !ok {
				return
			}
			arms := selectArms(sel)
			for i, st := range sel.States {
				if doneReceiver(st.Chan) == nil || st.Dir != types.RecvOnly || arms[i] == nil {
					continue
				}
				n++
				got := map[string]bool{}
				for _, b := range fn.Blocks {
					if !arms[i].Dominates(b) {
						continue
					}
					for _, bi := range b.Instrs {
						call, ok := bi.(*ssa.Call)
						if !ok || !call.Call.IsInvoke() {
							continue
						}
						if m := call.Call.Method.Name(); m == "CancelRead" || m == "CancelWrite" {
							got[m] = true
						}
					}
				}
				var miss []string
				for _, m := range []string{"CancelRead", "CancelWrite"} {
					if !got[m] {
						miss = append(miss, m)
					}
				}
				c.Check(len(miss) == 0, fmt.Sprintf("done-arm-unblocks-worker:%s#%d", core.FuncName(fn), n), sel.Pos(), fn,
					"when the caller gives up, its Done arm cancels the stream in both directions (the worker reads and writes without a deadline)",
					"no "+strings.Join(miss, ", ")+" on the Done arm")
			}
		})
	}
	if n < 1 {
		c.Unknown("stream-workers", 0, nil, "at least one select on Done next to a stream worker", "none found")
	}
}

func hasMethod(t types.Type, name string) bool {
	for _, tt := range []types.Type{t, types.NewPointer(t)} {
		ms := types.NewMethodSet(tt)
		for i := 0; i < ms.Len(); i++ {
			if ms.At(i).Obj().Name() == name {
				return true
			}
		}
	}
	return false
}

// ---------- R08h: the redis value records the times it was given, truncated to seconds ----------

// cacheCtl.Get computes a hit's age from the stored fetch time; the contract with the backends is that the recorded
// time is never later than the real one (Unix() truncates). In RedisCache.buildValue every (time.Time).Unix() is taken
// of a parameter itself — not of a rounded, shifted or otherwise derived time.
func r08h(c *core.Ctx) {
	bv := c.Anchor("internal/cache", "(*RedisCache).buildValue")
	if bv == nil {
		return
	}
	n := 0
	for _, call := range core.Calls(bv) {
		if core.CallName(call) != "(time.Time).Unix" {
			continue
		}
		n++
		recv := core.Unspill(core.CallArgs(call)[0])
		_, isParam := recv.(*ssa.Parameter)
		c.Check(isParam, fmt.Sprintf("redis-times-as-given#%d", n), call.Pos(), bv,
			"the stored/expire time written to redis is the Unix() (truncation) of the time that was passed in", "Unix() of "+core.Expr(recv))
	}
	if n < 2 {
		c.Unknown("redis-times", bv.Pos(), bv, "buildValue encodes two times", fmt.Sprint(n))
	}
}

// ---------- R09f: the raw record's length clamp is the 16-bit RDLENGTH limit on both sides ----------

// RawResource.packLen clamps len(Data) and RawResource.pack refuses len(Data) above a constant; Msg.Pack's truncation
// test and Msg.Len's buffer sizing trust packLen for every record pack accepts. Both constants are 65535.
func r09f(c *core.Ctx) {
	pl := c.Anchor("internal/dnsmsg", "(*RawResource).packLen")
	pk := c.Anchor("internal/dnsmsg", "(*RawResource).pack")
	if pl == nil || pk == nil {
		return
	}
	consts := func(fn *ssa.Function) []int64 {
		var out []int64
		isDataLen := func(v ssa.Value) bool {
			return strings.Contains(core.Expr(v), "len(") && strings.Contains(core.Expr(v), ".Data")
		}
		core.EachInstr(fn, func(_ *ssa.BasicBlock, _ int, in ssa.Instruction) {
			switch x := in.(type) {
			case *ssa.BinOp:
				switch x.Op {
				case token.GTR, token.GEQ, token.LSS, token.LEQ:
					if k, ok := core.ConstInt(x.Y); ok && isDataLen(x.X) {
						if x.Op == token.GEQ {
							k--
						}
						out = append(out, k)
					} else if k, ok := core.ConstInt(x.X); ok && isDataLen(x.Y) {
						if x.Op == token.LEQ {
							k--
						}
						out = append(out, k)
					}
				}
			case *ssa.Call:
				if b, isB := x.Call.Value.(*ssa.Builtin); isB && (b.Name() == "min" || b.Name() == "max") {
					hasLen := false
					for _, a := range x.Call.Args {
						if isDataLen(a) {
							hasLen = true
						}
					}
					if hasLen {
						for _, a := range x.Call.Args {
							if k, ok := core.ConstInt(a); ok {
								out = append(out, k)
							}
						}
					}
				}
			}
		})
		return out
	}
	for _, sp := range []struct {
		fn   *ssa.Function
		what string
	}{{pl, "packLen clamps len(Data)"}, {pk, "pack refuses len(Data) above"}} {
		ks := consts(sp.fn)
		ok := len(ks) > 0
		for _, k := range ks {
			if k != 65535 {
				ok = false
			}
		}
		c.Check(ok, "raw-rdata-limit-65535:"+core.FuncName(sp.fn), sp.fn.Pos(), sp.fn,
			"RawResource."+sp.what+" at exactly 65535 (the two sides of the RDLENGTH limit agree)", fmt.Sprint(ks))
	}
}

// ---------- R19f: the cache's entry cost is the stored size ----------

// otter silently rejects an entry whose cost exceeds a tenth of the capacity, and MemoryCache.Store ignores that. The
// cost is the number of bytes stored (len of key and value): the capacity of a pooled buffer is rounded up to its size
// class and would reject answers that fit — a refresh then never replaces the entry it was started for.
func r19f(c *core.Ctx) {
	nm := c.Anchor("internal/cache", "NewMemoryCache")
	if nm == nil {
		return
	}
	n := 0
	for _, cl := range closuresOf(nm) {
		if cl.Signature.Results().Len() != 1 || cl.Signature.Results().At(0).Type().String() != "uint32" || len(cl.Params) != 2 {
			continue
		}
		n++
		bad := ""
		for _, call := range core.Calls(cl) {
			if b, ok := call.Common().Value.(*ssa.Builtin); ok && b.Name() == "cap" {
				bad = "uses cap(" + core.Expr(call.Common().Args[0]) + ")"
			}
		}
		c.Check(bad == "", fmt.Sprintf("entry-cost-is-stored-size#%d", n), cl.Pos(), cl,
			"the cost of a cache entry is len(key)+len(value): what is stored, not the capacity of its pooled buffer", bad)
	}
	if n < 1 {
		c.Unknown("cost-callback", nm.Pos(), nm, "NewMemoryCache installs a cost callback", "none found")
	}
}

func init() {
	r14nR := Rule{ID: "R14n", Doc: "the caller's Done arm cancels the stream in both directions (its worker has no deadline)", Floor: 1, AllVariants: true, Run: r14n}
	reg("C14", "", r14nR)
	reg("C01", "", r14nR)
	reg("C08", "", Rule{ID: "R08h", Doc: "redis records the stored/expire times it was given, truncated to seconds (never later than real)", Floor: 2, Run: r08h})
	r09fR := Rule{ID: "R09f", Doc: "RawResource.packLen and pack agree on the 65535 rdata limit", Floor: 2, Run: r09f}
	reg("C09", "", r09fR)
	reg("C02", "", r09fR)
	r19fR := Rule{ID: "R19f", Doc: "the memory cache's entry cost is the stored size, not the pooled buffer's capacity", Floor: 1, Run: r19f}
	reg("C19", "", r19fR)
	reg("C07", "", r19fR)
	// cross-registrations
	reg("C06", "", Rule{ID: "R20p", Doc: "a name held by a record is released only by the record's Release function (a double release hands one buffer to two exchanges' queries)", Floor: 10, AllVariants: true, Run: r20p})
	reg("C07", "", Rule{ID: "R09b", Doc: "Msg.Pack applies no size limit when the limit is 0 (the cached copy is packed with limit 0)", Floor: 14, AllVariants: true, Run: r09b})
	reg("C10", "", Rule{ID: "R04e", Doc: "DoH: the per-request query is written into an object the exchange owns (each query reaches the upstream with its own question)", Floor: 3, AllVariants: true, Run: r04e})
	reg("C13", "", Rule{ID: "R02a", Doc: "packLen of every record type and name equals the size its pack writes (the frame buffer is sized by Len())", Floor: 20, AllVariants: true, Run: r02a})
	reg("C16", "", Rule{ID: "R14f", Doc: "a select arm on X.Done() reports the cause of X (the TCP retry's dial never yields (nil, nil))", Floor: 8, AllVariants: true, Run: r14f})
}
