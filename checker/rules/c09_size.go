package rules

import (
	"fmt"
	"go/token"
	"strings"

	"golang.org/x/tools/go/ssa"

	"mosverif/core"
)

func init() {
	reg("C09", "Structural necessary conditions of size-limited, well-formed truncation, decided for all paths of Msg.Pack and its callers: "+
		"(R09a) skipped => the header says so: the TC bit written by header.pack depends on every section's skip edge, and every section count written is an increment on that section's packed path (never a length taken before packing); "+
		"(R09b) budget: an element is packed only on the false edge of `size > 0 && off + uncompressedLen(elem) > size` for that same element, offset and budget; the budget is floored to 512 first and then reduced by the popped OPT's length; the OPT is re-appended and packed last on every success path; "+
		"(R09c) limits per listener: UDP uses max(512, class of the QUERY's OPT), packResp clamps to 65535, TCP framing and both HTTP handlers pass 65535; "+
		"(R09d) Pack never writes the answer/authority slices (order and content kept). "+
		"Not decided: decodability by third parties, the per-element bound `bytes written <= packLen` (layout agreement is R02a's subject), the corner `size - optLen <= 0`.",
		Rule{ID: "R09a", Doc: "skipped => TC and counts say so", Floor: 10, AllVariants: true, Run: r09a},
		Rule{ID: "R09b", Doc: "budget arithmetic and OPT reservation", Floor: 14, AllVariants: true, Run: r09b},
		Rule{ID: "R09c", Doc: "limits per listener", Floor: 6, Run: r09c},
		Rule{ID: "R09d", Doc: "no reordering of answer/authority records", Floor: 1, AllVariants: true, Run: r09d},
		Rule{ID: "R02a", Doc: "packLen of every record type equals the size its pack writes (the fit test `off + packLen() > size` relies on it; shared with C02)", Floor: 20, AllVariants: true, Run: r02a},
		Rule{ID: "R02d", Doc: "the TC bit is encoded at its RFC 1035 position (shared with C02)", Floor: 10, AllVariants: true, Run: r02d},
		Rule{ID: "R12e", Doc: "PopEDNS0 is a correct swap-remove (no nil record left, nothing after the OPT dropped)", Floor: 5, AllVariants: true, Run: r12e},
		Rule{ID: "R02f", Doc: "a compression pointer is only recorded for an offset that fits 14 bits, tested per label (a pointer past 16383 lands in other bytes of a large TCP response; shared with C02)", Floor: 5, AllVariants: true, Run: r02f},
	)
}

type packLoop struct {
	section string
	pack    ssa.CallInstruction
	elem    ssa.Value
	off     ssa.Value
	g1, g2  *ssa.If // size > 0 ; off+len > size
	skip    *ssa.BasicBlock
	size    ssa.Value
}

var countField = map[string]string{"Questions": "questions", "Answers": "answers", "Authorities": "authorities", "Additionals": "additionals"}

func sectionOf(v ssa.Value) string {
	// elem = *(&slice[i]) with slice = *(&m.Section)
	for _, o := range core.Origins(v, core.OriginOpts{}) {
		if u, ok := o.(*ssa.UnOp); ok && u.Op == token.MUL {
			if ia, ok := u.X.(*ssa.IndexAddr); ok {
				e := core.Expr(ia.X)
				for s := range countField {
					if e == "m."+s {
						return s
					}
				}
			}
		}
	}
	return ""
}

func findPackLoops(c *core.Ctx, pk *ssa.Function) []packLoop {
	var out []packLoop
	for _, call := range core.Calls(pk) {
		n := ""
		if call.Common().IsInvoke() {
			n = call.Common().Method.Name()
		} else if f := core.StaticCallee(call); f != nil {
			n = f.Name()
		}
		if n != "pack" {
			continue
		}
		args := core.CallArgs(call)
		if len(args) < 3 {
			continue
		}
		sec := sectionOf(args[0])
		if sec == "" {
			continue
		}
		out = append(out, packLoop{section: sec, pack: call, elem: args[0], off: args[2]})
	}
	return out
}

func r09a(c *core.Ctx) {
	pk := c.Anchor("internal/dnsmsg", "(*Msg).Pack")
	if pk == nil {
		return
	}
	loops := findPackLoops(c, pk)
	if len(loops) != 4 {
		c.Unknown("section-loops", pk.Pos(), pk, "four section loops (questions, answers, authorities, additionals)", fmt.Sprint(len(loops)))
	}
	resolveGuards(c, pk, loops)
	// the header written at the end
	var hp ssa.CallInstruction
	for _, call := range core.Calls(pk) {
		if strings.HasSuffix(core.CallName(call), "dnsmsg.header).pack") {
			hp = call
		}
	}
	if hp == nil {
		c.Bad("header-written", pk.Pos(), pk, "Pack writes the 12-byte header", "no header.pack call")
		return
	}
	hobj := core.Strip(hp.Common().Args[0])
	// every success return passes header.pack
	for i, ret := range returnsOf(pk) {
		rs := core.ReturnResults(ret)
		if !core.IsNilConst(rs[1]) {
			continue
		}
		c.Check(core.InstrDominates(hp, ret), fmt.Sprintf("header-before-success#%d", i+1), ret.Pos(), pk, "every successful return of Pack has written the header", "")
	}
	// TC: a store  h.bits = h.bits | 0x200  guarded by a condition that is true on every section's skip edge
	var tcStore *ssa.Store
	core.EachInstr(pk, func(_ *ssa.BasicBlock, _ int, in ssa.Instruction) {
		st, ok := in.(*ssa.Store)
		if !ok {
			return
		}
		fa, ok := st.Addr.(*ssa.FieldAddr)
		if !ok || fa.X != hobj || core.FieldAddrRef(fa).Name != "bits" {
			return
		}
		if bo, ok := st.Val.(*ssa.BinOp); ok && bo.Op == token.OR {
			if k, ok := core.ConstInt(bo.Y); ok && k == 1<<9 {
				tcStore = st
			}
		}
	})
	if tcStore == nil {
		for _, l := range loops {
			c.Bad("tc-depends-on-skip:"+l.section, pk.Pos(), pk, "when a "+l.section+" element is skipped the TC bit reaches the packed header",
				"no store of `bits | headerBitTC` into the header object that header.pack writes (a flag set on a copy of the header that is never read is a dead store)")
		}
	} else {
		c.Check(core.InstrDominates(tcStore, hp) || reachableFrom(pk, tcStore, hp), "tc-before-header", tcStore.Pos(), pk, "the TC bit is OR-ed into the header before it is written", "")
		// which blocks make the guard true
		trueFrom := map[*ssa.BasicBlock]bool{}
		var cond ssa.Value
		for _, cnd := range core.CondsAt(tcStore.Block()) {
			if cnd.Val {
				cond = cnd.Cond
			}
		}
		seen := map[ssa.Value]bool{}
		var walk func(v ssa.Value)
		walk = func(v ssa.Value) {
			if v == nil || seen[v] {
				return
			}
			seen[v] = true
			if p, ok := v.(*ssa.Phi); ok {
				for i, e := range p.Edges {
					if b, isC := core.ConstBool(e); isC {
						if b {
							pred := p.Block().Preds[i]
							trueFrom[pred] = true
							// `if flag { truncated = true }`: the constant enters where another flag is true — that
							// flag's own sources count as well (a per-section helper reports the skip through its result)
							for _, cnd := range core.CondsAt(pred) {
								if cnd.Val {
									if _, isPhi := cnd.Cond.(*ssa.Phi); isPhi {
										walk(cnd.Cond)
									}
								}
							}
							// `a || b` lowers to phi(true from the block that found a true | b): a is a source too
							if iff, ok := pred.Instrs[len(pred.Instrs)-1].(*ssa.If); ok && len(pred.Succs) == 2 && pred.Succs[0] == p.Block() {
								walk(iff.Cond)
							}
						}
						continue
					}
					walk(e)
				}
			}
		}
		walk(cond)
		for _, l := range loops {
			ok := false
			if l.skip != nil {
				for b := range trueFrom {
					if b == l.skip || l.skip.Dominates(b) {
						ok = true
					}
				}
			}
			c.Check(ok, "tc-depends-on-skip:"+l.section, l.pack.Pos(), pk, "when a "+l.section+" element is skipped under the size guard, the condition guarding `bits |= TC` becomes true", fmt.Sprintf("skip block %v; TC condition true from blocks %v", blockName(l.skip), blockNames(trueFrom)))
		}
	}
	// counts: every store to a count field of the header object is `field + 1` on the packed path of its section (or after packing the OPT)
	bySec := map[string]bool{}
	core.EachInstr(pk, func(b *ssa.BasicBlock, _ int, in ssa.Instruction) {
		st, ok := in.(*ssa.Store)
		if !ok {
			return
		}
		fa, ok := st.Addr.(*ssa.FieldAddr)
		if !ok || fa.X != hobj {
			return
		}
		f := core.FieldAddrRef(fa).Name
		sec := ""
		for s, cf := range countField {
			if cf == f {
				sec = s
			}
		}
		if sec == "" {
			return
		}
		key := "count-follows-packed:" + sec
		inc := core.Expr(st.Val) == "("+strings.TrimPrefix(core.Expr(fa), "&")+" + 1)"
		if !inc {
			// the count may be accumulated in a local counter first (a per-section helper returns how many elements it
			// packed) and added once: field + n, where n starts at 0 and is incremented by 1 only where an element of
			// that section was packed
			if bo, isB := st.Val.(*ssa.BinOp); isB && bo.Op == token.ADD && core.Expr(bo.X) == strings.TrimPrefix(core.Expr(fa), "&") {
				if incs, ok := counterIncrements(bo.Y); ok && len(incs) > 0 {
					all := true
					for _, ib := range incs {
						okEdge := false
						for _, l := range loops {
							if l.section == sec {
								if e := extractOf(l.pack.(ssa.Value), 1); e != nil && core.NilAt(e, ib.Block()) == core.IsNil {
									okEdge = true
								}
							}
						}
						if !okEdge {
							all = false
						}
					}
					if all {
						bySec[sec] = true
						c.OK(key, st.Pos(), pk, "the "+f+" count is incremented once per element actually packed", "accumulated in a counter incremented on the packed path, added once")
						return
					}
				}
			}
			c.Bad(key, st.Pos(), pk, "the "+f+" count written to the header is incremented once per element actually packed",
				"stored value "+core.Expr(st.Val)+" is not an increment (a length taken before the loops counts skipped elements too)")
			return
		}
		// dominated by the success edge of a pack call of that section (or of the OPT for additionals)
		okEdge := false
		for _, l := range loops {
			if l.section == sec {
				if e := extractOf(l.pack.(ssa.Value), 1); e != nil && core.NilAt(e, b) == core.IsNil {
					okEdge = true
					bySec[sec] = true
				}
			}
		}
		if !okEdge && sec == "Additionals" {
			for _, call := range core.Calls(pk) {
				if call.Common().IsInvoke() && call.Common().Method.Name() == "pack" && sectionOf(call.Common().Value) == "" {
					if e := extractOf(call.(ssa.Value), 1); e != nil && core.NilAt(e, b) == core.IsNil {
						okEdge = true
					}
				}
			}
		}
		c.Check(okEdge, key, st.Pos(), pk, "the "+f+" count is incremented on the `err == nil` edge of packing an element of that section", condList(b))
	})
	for _, l := range loops {
		if !bySec[l.section] {
			c.Bad("count-follows-packed:"+l.section, l.pack.Pos(), pk, "the "+countField[l.section]+" count is incremented when an element of "+l.section+" was packed", "no such increment on the packed path")
		}
	}
}

func blockName(b *ssa.BasicBlock) string {
	if b == nil {
		return "<none>"
	}
	return fmt.Sprintf("b%d", b.Index)
}

func blockNames(m map[*ssa.BasicBlock]bool) []string {
	var out []string
	for b := range m {
		out = append(out, blockName(b))
	}
	return out
}

// resolveGuards fills g1, g2, skip, size of each loop.
func resolveGuards(c *core.Ctx, pk *ssa.Function, loops []packLoop) {
	for i := range loops {
		l := &loops[i]
		pb := l.pack.Block()
		for _, p := range pb.Preds {
			iff, ok := p.Instrs[len(p.Instrs)-1].(*ssa.If)
			if !ok {
				continue
			}
			bo, ok := iff.Cond.(*ssa.BinOp)
			if !ok || bo.Op != token.GTR {
				continue
			}
			if k, isC := core.ConstInt(bo.Y); isC && k == 0 {
				l.g1 = iff
				l.size = bo.X
			} else if add, ok := bo.X.(*ssa.BinOp); ok && add.Op == token.ADD {
				l.g2 = iff
				l.skip = p.Succs[0]
			}
		}
	}
}

func r09b(c *core.Ctx) {
	pk := c.Anchor("internal/dnsmsg", "(*Msg).Pack")
	if pk == nil {
		return
	}
	loops := findPackLoops(c, pk)
	resolveGuards(c, pk, loops)
	var finalSize ssa.Value
	for _, l := range loops {
		key := "budget-guard:" + l.section
		pb := l.pack.Block()
		if l.g1 == nil || l.g2 == nil {
			c.Bad(key, l.pack.Pos(), pk, "the element is packed only on the false edge of `size > 0 && off+len > size`", "guard not found among the predecessors of the packing block")
			continue
		}
		// the packing block is entered only through the two false edges
		okPreds := len(pb.Preds) == 2 && l.g1.Block().Succs[1] == pb && l.g2.Block().Succs[1] == pb
		c.Check(okPreds, key+":only-false-edges", l.pack.Pos(), pk, "the packing block is reachable only through the false edges of the two guard tests", fmt.Sprintf("%d predecessors", len(pb.Preds)))
		// g2: off + Len(elem) > size with the same elem, off and size
		bo := l.g2.Cond.(*ssa.BinOp)
		add := bo.X.(*ssa.BinOp)
		lenCall, _ := add.Y.(*ssa.Call)
		if lenCall == nil {
			lenCall, _ = add.X.(*ssa.Call)
		}
		lenOK := false
		if lenCall != nil {
			var recv ssa.Value
			name := ""
			if lenCall.Call.IsInvoke() {
				recv, name = lenCall.Call.Value, lenCall.Call.Method.Name()
			} else if f := core.StaticCallee(lenCall); f != nil && len(lenCall.Call.Args) > 0 {
				recv, name = lenCall.Call.Args[0], f.Name()
			}
			lenOK = recv == l.elem && (name == "packLen" || name == "Len")
		}
		c.Check(lenOK, key+":uncompressed-len-of-same-element", l.g2.Pos(), pk, "the guard adds the uncompressed length (Len/packLen) of the very element that is packed", core.Expr(bo.X))
		offOK := add.X == l.off || add.Y == l.off
		c.Check(offOK, key+":same-offset", l.g2.Pos(), pk, "the guard uses the offset the element will be packed at", core.Expr(bo.X)+" vs "+core.Expr(l.off))
		c.Check(bo.Y == l.size, key+":same-budget", l.g2.Pos(), pk, "both guard tests use the same budget value", core.Expr(bo.Y)+" vs "+core.Expr(l.size))
		c.Check(l.g2.Block() == l.g1.Block().Succs[0], key+":conjunction", l.g2.Pos(), pk, "the size comparison is evaluated only when size > 0", "")
		// the skip edge continues the loop without packing
		if l.skip != nil {
			reach := core.Reach(pk, l.skip.Instrs[0], func(in ssa.Instruction) bool { return in == l.pack.(ssa.Instruction) }, func(in ssa.Instruction) bool {
				// next iteration starts at the loop header (phi block)
				_, isPhi := in.(*ssa.Phi)
				return isPhi
			})
			c.Check(reach == nil, key+":skip-does-not-pack", l.skip.Instrs[0].Pos(), pk, "a skipped element is not packed in that iteration", "")
		}
		if finalSize == nil {
			finalSize = l.size
		} else {
			c.Check(finalSize == l.size, key+":sibling-budget", l.g1.Pos(), pk, "all four section loops test the same final budget", "")
		}
	}
	if finalSize == nil {
		return
	}
	// budget derivation: final = phi(clamped - optLen | clamped), clamped = phi(512 | param size)
	sizePar := pk.Params[3]
	isClamped := func(v ssa.Value) (bool, string) {
		p, ok := v.(*ssa.Phi)
		if !ok {
			return false, core.Expr(v)
		}
		has512, hasPar := false, false
		for i, e := range p.Edges {
			// `size = max(size, 512)` under `size > 0` — the builtin spelling of the floor
			if mc, isCall := e.(*ssa.Call); isCall {
				if bi, isB := mc.Call.Value.(*ssa.Builtin); isB && bi.Name() == "max" && len(mc.Call.Args) == 2 {
					var other ssa.Value
					for j, a := range mc.Call.Args {
						if k, isC := core.ConstInt(a); isC && k == 512 {
							other = mc.Call.Args[1-j]
						}
					}
					if other == ssa.Value(sizePar) && hasCond(p.Block().Preds[i], "(size > 0)", true) {
						has512 = true
						continue
					}
				}
			}
			if k, isC := core.ConstInt(e); isC && k == 512 {
				pred := p.Block().Preds[i]
				if hasCond(pred, "(size < 512)", true) && hasCond(pred, "(size > 0)", true) {
					has512 = true
				}
				continue
			}
			if e == ssa.Value(sizePar) {
				hasPar = true
				continue
			}
			return false, core.Expr(v)
		}
		return has512 && hasPar, core.Expr(v)
	}
	okFinal := false
	desc := core.Expr(finalSize)
	var sub *ssa.BinOp
	if p, ok := finalSize.(*ssa.Phi); ok {
		okFinal = true
		for _, e := range p.Edges {
			if bo, isB := e.(*ssa.BinOp); isB && bo.Op == token.SUB {
				sub = bo
				if ok2, _ := isClamped(bo.X); !ok2 {
					okFinal = false
				}
				continue
			}
			if ok2, _ := isClamped(e); !ok2 {
				okFinal = false
			}
		}
	}
	c.Check(okFinal && sub != nil, "floor-then-reserve", pk.Pos(), pk, "the budget is floored to 512 first (only when 0 < size < 512) and the popped OPT's length is subtracted afterwards; nothing else changes it", desc)
	if sub != nil {
		// the subtracted value is packLen() of the popped OPT
		e := core.Expr(sub.Y)
		c.Check(e == "dnsmsg.PopEDNS0(m).packLen()", "reserve-is-opt-len", sub.Pos(), pk, "the reserved space is the popped OPT's packLen()", e)
		c.Check(hasCond(sub.Block(), "dnsmsg.PopEDNS0(m) != nil)", true), "reserve-only-if-opt", sub.Pos(), pk, "space is reserved only when an OPT was popped", condList(sub.Block()))
	}
	// PopEDNS0 only under size > 0
	for _, call := range core.CallsNamed(pk, core.M("internal/dnsmsg.PopEDNS0")) {
		okPop := false
		for _, cnd := range core.CondsAt(call.Block()) {
			if bo, ok := cnd.Cond.(*ssa.BinOp); ok && cnd.Val && bo.Op == token.GTR {
				if k, isC := core.ConstInt(bo.Y); isC && k == 0 {
					if ok2, _ := isClamped(bo.X); ok2 {
						okPop = true
					}
				}
			}
		}
		c.Check(okPop, "pop-only-when-limited", call.Pos(), pk, "the OPT is popped only when a size limit applies (size > 0)", condList(call.Block()))
	}
	// the popped OPT is re-appended and packed on every success path where it is non-nil
	var optPack ssa.CallInstruction
	for _, call := range core.Calls(pk) {
		if call.Common().IsInvoke() && call.Common().Method.Name() == "pack" && sectionOf(call.Common().Value) == "" {
			optPack = call
		}
	}
	if optPack == nil {
		c.Bad("opt-packed-last", pk.Pos(), pk, "the popped OPT is packed after the sections", "no such pack call")
		return
	}
	c.Check(hasCond(optPack.Block(), " != nil)", true), "opt-packed-if-present", optPack.Pos(), pk, "the OPT is packed exactly when one was popped", condList(optPack.Block()))
	for _, l := range loops {
		c.Check(reachableFrom(pk, l.pack, optPack) && !reachableFrom(pk, optPack, l.pack), "opt-after:"+l.section, optPack.Pos(), pk, "the OPT is packed after the "+l.section+" loop", "")
	}
	reapp := false
	core.EachInstr(pk, func(b *ssa.BasicBlock, _ int, in ssa.Instruction) {
		if st, ok := in.(*ssa.Store); ok && core.IsFieldAddr(st.Addr, "Msg", "Additionals") {
			if call, ok := st.Val.(*ssa.Call); ok && core.CallName(call) == "builtin.append" && (b == optPack.Block() || b.Dominates(optPack.Block())) {
				reapp = true
			}
		}
	})
	c.Check(reapp, "opt-reappended", optPack.Pos(), pk, "the popped OPT is appended back to m.Additionals (the message keeps its OPT)", "")
	// every success return with a popped OPT passes the OPT pack: success returns are dominated by the merge after the opt block;
	// check no success return is reachable from the last section loop without passing either the nil test false edge or optPack
	for i, ret := range returnsOf(pk) {
		rs := core.ReturnResults(ret)
		if !core.IsNilConst(rs[1]) {
			continue
		}
		byp := core.Reach(pk, nil, func(in ssa.Instruction) bool { return in == ssa.Instruction(ret) }, func(in ssa.Instruction) bool {
			if in == optPack.(ssa.Instruction) {
				return true
			}
			// the block taken when no OPT was popped
			if iff, ok := in.(*ssa.If); ok {
				for _, cnd := range core.CondsAt(optPack.Block()) {
					if cnd.Cond == iff.Cond && cnd.Val {
						return false
					}
				}
			}
			return false
		})
		// the bypass must go through the `opt == nil` edge: accept when the only bypass is that edge
		okRet := byp == nil || bypassOnlyViaNilOpt(pk, optPack, ret)
		c.Check(okRet, fmt.Sprintf("opt-on-every-success-path#%d", i+1), ret.Pos(), pk, "a successful return with a popped OPT has packed it", "")
	}
}

// bypassOnlyViaNilOpt: the return is reachable without optPack only through the false edge of the
// `opt != nil` test that guards optPack.
func bypassOnlyViaNilOpt(fn *ssa.Function, optPack ssa.CallInstruction, ret *ssa.Return) bool {
	var guard *ssa.If
	for _, cnd := range core.CondsAt(optPack.Block()) {
		if cnd.Val {
			for _, b := range fn.Blocks {
				if iff, ok := b.Instrs[len(b.Instrs)-1].(*ssa.If); ok && iff.Cond == cnd.Cond {
					guard = iff
				}
			}
		}
	}
	if guard == nil {
		return false
	}
	// remove the guard's false edge: is ret still reachable from entry avoiding optPack?
	falseSucc := guard.Block().Succs[1]
	visited := map[*ssa.BasicBlock]bool{}
	var dfs func(b *ssa.BasicBlock) bool
	dfs = func(b *ssa.BasicBlock) bool {
		if visited[b] {
			return false
		}
		visited[b] = true
		for _, in := range b.Instrs {
			if in == optPack.(ssa.Instruction) {
				return false
			}
			if in == ssa.Instruction(ret) {
				return true
			}
		}
		for i, s := range b.Succs {
			if b == guard.Block() && i == 1 && s == falseSucc {
				continue
			}
			if dfs(s) {
				return true
			}
		}
		return false
	}
	return !dfs(fn.Blocks[0])
}

func r09c(c *core.Ctx) {
	uh := c.Anchor("app/router", "(*udpServer).handleReq")
	if uh != nil {
		for _, call := range core.CallsNamed(uh, core.M("app/router.mustHaveRespB")) {
			a := call.Common().Args
			sz := a[4]
			qName := "m"
			if len(uh.Params) > 1 {
				qName = core.Expr(uh.Params[1])
			}
			// the limit may be computed by a helper of the package from the query: analyse the helper's result
			if hc, isCall := sz.(*ssa.Call); isCall {
				if h := core.StaticCallee(hc); h != nil && h.Pkg == uh.Pkg && h.Blocks != nil && len(returnsOf(h)) == 1 {
					for k, arg := range hc.Call.Args {
						if len(uh.Params) > 1 && arg == ssa.Value(uh.Params[1]) && k < len(h.Params) {
							sz = core.ReturnResults(returnsOf(h)[0])[0]
							qName = core.Expr(h.Params[k])
						}
					}
				}
			}
			// phi(512 | int(hdr.Class)) with the floor guard
			ok := false
			fromQuery := false
			desc := core.Expr(sz)
			// max(x, 512) spelled with the builtin
			if mc, isCall := sz.(*ssa.Call); isCall {
				if bi, isB := mc.Call.Value.(*ssa.Builtin); isB && bi.Name() == "max" && len(mc.Call.Args) == 2 {
					var other ssa.Value
					for i, a := range mc.Call.Args {
						if k, isC := core.ConstInt(a); isC && k == 512 {
							other = mc.Call.Args[1-i]
						}
					}
					if other != nil {
						ok = true
						for _, o := range core.Origins(other, core.OriginOpts{}) {
							if k, isC := core.ConstInt(o); isC && k == 0 {
								continue
							}
							if u, isU := o.(*ssa.UnOp); isU && core.IsFieldAddr(u.X, "ResourceHdr", "Class") {
								hexpr := core.Expr(u.X)
								if strings.Contains(hexpr, qName+".Additionals[") && hasCond(u.Block(), ".Type == 41)", true) {
									fromQuery = true
								} else {
									desc += " (class read from " + hexpr + ")"
								}
								continue
							}
							ok = false
						}
					}
				}
			}
			if p, isPhi := sz.(*ssa.Phi); isPhi {
				has512 := false
				var other ssa.Value
				for i, e := range p.Edges {
					if k, isC := core.ConstInt(e); isC && k == 512 {
						if hasCond(p.Block().Preds[i], " < 512)", true) {
							has512 = true
						}
					} else {
						other = e
					}
				}
				if has512 && other != nil {
					ok = true
					// other = phi(0 | conv(hdr.Class)) from the scan of the QUERY's additionals
					for _, o := range core.Origins(other, core.OriginOpts{}) {
						if k, isC := core.ConstInt(o); isC && k == 0 {
							continue
						}
						if u, isU := o.(*ssa.UnOp); isU && core.IsFieldAddr(u.X, "ResourceHdr", "Class") {
							// hdr = r.Hdr() with r ranging over m.Additionals (m the query parameter)
							hexpr := core.Expr(u.X)
							if strings.Contains(hexpr, qName+".Additionals[") && hasCond(u.Block(), ".Type == 41)", true) {
								fromQuery = true
							} else {
								desc += " (class read from " + hexpr + ")"
							}
							continue
						}
						ok = false
					}
				}
			}
			// `size := 512; if h := optOf(m); h != nil && int(h.Class) > 512 { size = int(h.Class) }`: the non-512 edge
			// is taken only where the class exceeds 512, and the header it is read from is (through the scan's phis)
			// the Hdr() of an OPT record of the query's additionals
			if p, isPhi := sz.(*ssa.Phi); isPhi && !(ok && fromQuery) {
				has512, okOther, nOther := false, true, 0
				for i, e := range p.Edges {
					if k, isC := core.ConstInt(e); isC && k == 512 {
						has512 = true
						continue
					}
					nOther++
					pred := p.Block().Preds[i]
					if !(hasCond(pred, " > 512)", true) || hasCond(pred, " < 512)", false) && hasCond(pred, " == 512)", false)) {
						okOther = false
					}
					for _, o := range core.Origins(e, core.OriginOpts{}) {
						u, isU := o.(*ssa.UnOp)
						if !isU || !core.IsFieldAddr(u.X, "ResourceHdr", "Class") {
							okOther = false
							continue
						}
						fa := u.X.(*ssa.FieldAddr)
						seen := map[*ssa.Phi]bool{}
						var walk func(v ssa.Value, blk *ssa.BasicBlock)
						walk = func(v ssa.Value, blk *ssa.BasicBlock) {
							if ph, isPhi := v.(*ssa.Phi); isPhi {
								if seen[ph] {
									return
								}
								seen[ph] = true
								for j, e2 := range ph.Edges {
									walk(e2, ph.Block().Preds[j])
								}
								return
							}
							if core.IsNilConst(v) {
								return // excluded by the `!= nil` test that guards the read (a nil read would crash: R01e/R01a's business)
							}
							hc, isCall := v.(*ssa.Call)
							if !isCall || !hc.Call.IsInvoke() || hc.Call.Method.Name() != "Hdr" || !strings.Contains(core.Expr(hc), qName+".Additionals[") || !hasCond(blk, ".Type == 41)", true) {
								okOther = false
							}
						}
						walk(fa.X, u.Block())
					}
				}
				if has512 && nOther > 0 && okOther {
					ok, fromQuery = true, true
				}
			}
			c.Check(ok && fromQuery, "udp-limit-from-query-opt", call.Pos(), uh, "the UDP size limit is max(512, class of the OPT record of the QUERY m)", desc)
			tcp, _ := core.ConstBool(a[3])
			c.Check(!tcp, "udp-not-framed", call.Pos(), uh, "UDP responses are packed without the TCP length prefix", "")
		}
	}
	pr := c.Anchor("app/router", "packResp")
	if pr != nil {
		for _, call := range core.Calls(pr) {
			if strings.HasSuffix(core.CallName(call), "dnsmsg.Msg).Pack") {
				sz := call.Common().Args[3]
				ok := false
				if inner, lim, isClamp := upperClamp(sz); isClamp {
					if k, isC := core.ConstInt(lim); isC && k == 65535 {
						_, ok = core.Strip(inner).(*ssa.Parameter)
					}
				}
				c.Check(ok, "packResp-clamp", call.Pos(), pr, "packResp clamps the limit to 65535", core.Expr(sz))
			}
		}
	}
	pt := c.Anchor("app/router", "packRespTCP")
	if pt != nil {
		for _, call := range core.Calls(pt) {
			if strings.HasSuffix(core.CallName(call), "dnsmsg.Msg).Pack") {
				k, _ := core.ConstInt(call.Common().Args[3])
				// the limit may reach Pack through a shared helper's clamp (`if size > 65535 { size = 65535 }` on the
				// constant 65535): every constant that can arrive must be 65535
				if kk, ok := constOnAllPaths(call.Common().Args[3], 0); ok {
					k = kk
				}
				if p, isPhi := call.Common().Args[3].(*ssa.Phi); isPhi && k != 65535 {
					all, n := true, 0
					seen := map[*ssa.Phi]bool{}
					var walk func(ph *ssa.Phi)
					walk = func(ph *ssa.Phi) {
						if seen[ph] {
							return
						}
						seen[ph] = true
						for _, e := range ph.Edges {
							if p2, ok := e.(*ssa.Phi); ok {
								walk(p2)
								continue
							}
							n++
							if kk, isC := core.ConstInt(e); !isC || kk != 65535 {
								all = false
							}
						}
					}
					walk(p)
					if all && n > 0 {
						k = 65535
					}
				}
				c.Check(k == 65535, "tcp-limit", call.Pos(), pt, "framed transports pack with limit 65535 (the 2-byte prefix cannot express more)", fmt.Sprint(k))
			}
		}
	}
	for _, h := range []string{"(*httpHandler).ServeHTTP", "(*fasthttpHandler).HandleFastHTTP"} {
		fn := c.Anchor("app/router", h)
		if fn == nil {
			continue
		}
		for _, call := range core.CallsNamed(fn, core.M("app/router.mustHaveRespB")) {
			k, _ := core.ConstInt(call.Common().Args[4])
			c.Check(k == 65535, "http-limit:"+h, call.Pos(), fn, "DoH bodies are limited to 65535 bytes", fmt.Sprint(k))
		}
	}
	// mustHaveRespB forwards size to packResp unchanged
	mh := c.Anchor("app/router", "mustHaveRespB")
	if mh != nil {
		for _, call := range core.CallsNamed(mh, core.M("app/router.packResp")) {
			c.Check(core.Expr(call.Common().Args[2]) == "size", "size-forwarded", call.Pos(), mh, "mustHaveRespB passes the caller's limit on to packResp", core.Expr(call.Common().Args[2]))
		}
	}
}

func r09d(c *core.Ctx) {
	pk := c.Anchor("internal/dnsmsg", "(*Msg).Pack")
	if pk == nil {
		return
	}
	var bad []string
	core.EachInstr(pk, func(_ *ssa.BasicBlock, _ int, in ssa.Instruction) {
		st, ok := in.(*ssa.Store)
		if !ok {
			return
		}
		e := core.Expr(st.Addr)
		if strings.HasPrefix(e, "&m.Answers") || strings.HasPrefix(e, "&m.Authorities") || strings.HasPrefix(e, "&m.Questions") {
			bad = append(bad, e+" at "+c.Rel(st.Pos()))
		}
	})
	c.Check(len(bad) == 0, "sections-read-only", pk.Pos(), pk, "Pack never stores into the question/answer/authority slices (kept records stay unmodified and in order)", strings.Join(bad, "; "))
}


// counterIncrements: v is a counter — through phis its leaves are the constant 0 or `c + 1` with c again the counter.
// Returns the increment instructions.
func counterIncrements(v ssa.Value) ([]*ssa.BinOp, bool) {
	var incs []*ssa.BinOp
	seen := map[ssa.Value]bool{}
	ok := true
	var walk func(v ssa.Value)
	walk = func(v ssa.Value) {
		v = core.Unspill(v)
		if seen[v] || !ok {
			return
		}
		seen[v] = true
		switch x := v.(type) {
		case *ssa.Phi:
			for _, e := range x.Edges {
				walk(e)
			}
		case *ssa.Const:
			if k, isC := core.ConstInt(x); !isC || k != 0 {
				ok = false
			}
		case *ssa.BinOp:
			if k, isC := core.ConstInt(x.Y); x.Op == token.ADD && isC && k == 1 {
				incs = append(incs, x)
				walk(x.X)
				return
			}
			ok = false
		case *ssa.Convert:
			walk(x.X)
		default:
			ok = false
		}
	}
	walk(v)
	return incs, ok
}


// constOnAllPaths: v is the same integer constant however it is reached: a constant, a phi of such values that agree,
// min/max of such values.
func constOnAllPaths(v ssa.Value, d int) (int64, bool) {
	if d > 6 {
		return 0, false
	}
	if k, ok := core.ConstInt(v); ok {
		return k, true
	}
	switch x := v.(type) {
	case *ssa.Convert:
		return constOnAllPaths(x.X, d+1)
	case *ssa.Phi:
		var val int64
		for i, e := range x.Edges {
			k, ok := constOnAllPaths(e, d+1)
			if !ok || i > 0 && k != val {
				return 0, false
			}
			val = k
		}
		return val, len(x.Edges) > 0
	case *ssa.Call:
		if b, ok := x.Call.Value.(*ssa.Builtin); ok && (b.Name() == "min" || b.Name() == "max") && len(x.Call.Args) > 0 {
			var val int64
			for i, a := range x.Call.Args {
				k, ok := constOnAllPaths(a, d+1)
				if !ok {
					return 0, false
				}
				if i == 0 || b.Name() == "min" && k < val || b.Name() == "max" && k > val {
					val = k
				}
			}
			return val, true
		}
	}
	return 0, false
}
