package rules

import (
	"fmt"
	"go/token"
	"go/types"
	"sort"
	"strings"

	"golang.org/x/tools/go/ssa"

	"mosverif/core"
)

func init() {
	lockRule := Rule{ID: "R14g", Doc: "every mutex acquisition is released on all paths", Floor: 25, AllVariants: true, Run: r14g}
	causeRule := Rule{ID: "R14f", Doc: "a select arm on X.Done() reports the cause of X", Floor: 8, AllVariants: true, Run: r14f}
	reg("C14", "Structural necessary conditions of bounded upstream exchanges, decided for all paths: "+
		"(R14a) every blocking channel operation reachable (same goroutine) from an ExchangeContext implementation is a select with a case on Done() of the caller's context or a context derived from it; "+
		"(R14b) helper goroutines hand off through a channel of capacity >= 1 sent at most once per path, or through a select that also watches a context the parent cancels on return; "+
		"(R14c) every retry loop continues only under `connection was reused && retry < K (K <= 6) && !ctxDone`, incrementing retry; "+
		"(R14d) every exit of the read loop and the UDP write error path close the connection with a cause, which cancels the connection context that exchange selects on; "+
		"(R14e) read/IO deadlines and dial timeouts are set from the configured/constant time-outs before the blocking call; "+
		"(R14f) a select arm taken on X.Done() returns context.Cause(X) of the same X (never a nil error); (R14g) every mutex acquisition is released on all paths. "+
		"Not decided: wall-clock latency, socket-buffer exhaustion on writes without deadline, http/quic-go internals.",
		Rule{ID: "R14a", Doc: "cancellable waits", Floor: 6, AllVariants: true, Run: r14a},
		Rule{ID: "R14b", Doc: "helpers always terminate their hand-off", Floor: 4, AllVariants: true, Run: r14b},
		Rule{ID: "R14c", Doc: "bounded, gated retry", Floor: 3, AllVariants: true, Run: r14c},
		Rule{ID: "R14d", Doc: "connection death wakes waiters", Floor: 5, AllVariants: true, Run: r14d},
		Rule{ID: "R14e", Doc: "deadlines exist", Floor: 4, AllVariants: true, Run: r14e},
		causeRule, lockRule,
		Rule{ID: "R17d", Doc: "TLS dials hand the dial context to the handshake (shared with C17)", Floor: 3, Run: r17d},
		Rule{ID: "R05g", Doc: "a pooled connection reported Available never refuses the next id, and one that refuses is retired (otherwise every exchange on it fails until it idles out; shared with C05)", Floor: 4, AllVariants: true, Run: r05g},
		Rule{ID: "R14h", Doc: "a dead cached QUIC connection is detected on its own context", Floor: 2, AllVariants: true, Run: r14h},
		Rule{ID: "R14i", Doc: "blocking QUIC stream opens wait on the exchange context", Floor: 2, AllVariants: true, Run: r14i},
		Rule{ID: "R06c", Doc: "the per-exchange deadline of a reused connection is set before the query is written (the write must not run under the previous exchange's expired deadline; shared with C06)", Floor: 6, AllVariants: true, Run: r06c},
	)
}

// transportImpls returns the ExchangeContext methods of module types implementing transport.Transport.
func transportImpls(c *core.Ctx) []*ssa.Function {
	var out []*ssa.Function
	tn := c.NamedType(tpkg, "Transport")
	if tn == nil {
		return nil
	}
	iface, _ := tn.Underlying().(*types.Interface)
	for _, fn := range c.SrcFuncs() {
		if core.CanonName(fn) != "ExchangeContext" || fn.Signature.Recv() == nil || fn.Parent() != nil {
			continue
		}
		if iface != nil && types.Implements(fn.Signature.Recv().Type(), iface) {
			out = append(out, fn)
		}
	}
	sort.Slice(out, func(i, j int) bool { return out[i].Pos() < out[j].Pos() })
	return out
}

// sameGoroutineClosure: functions reachable from roots by static calls in module packages, not
// following go statements / spawns; closures called directly (or deferred) are followed.
func sameGoroutineClosure(c *core.Ctx, roots []*ssa.Function, pkgPrefix string) []*ssa.Function {
	seen := map[*ssa.Function]bool{}
	var order []*ssa.Function
	var visit func(fn *ssa.Function)
	visit = func(fn *ssa.Function) {
		if fn == nil || seen[fn] || fn.Blocks == nil || fn.Pkg == nil || !strings.HasPrefix(fn.Pkg.Pkg.Path(), core.PkgPath(pkgPrefix)) {
			return
		}
		seen[fn] = true
		order = append(order, fn)
		core.EachInstr(fn, func(_ *ssa.BasicBlock, _ int, in ssa.Instruction) {
			if isSpawn(in) {
				return
			}
			if ci, ok := in.(ssa.CallInstruction); ok {
				if f := core.StaticCallee(ci); f != nil {
					visit(f)
				}
			}
		})
	}
	for _, r := range roots {
		visit(r)
	}
	return order
}

// ctxDerived: v is a context parameter of fn (or of an enclosing function), or the first result of
// context.With*(parent, …) with parent derived likewise.
func ctxDerived(v ssa.Value, depth int) (bool, string) {
	if depth > 6 {
		return false, "depth"
	}
	all := true
	desc := ""
	os := core.Origins(v, core.OriginOpts{})
	if len(os) == 0 {
		return false, "no origin"
	}
	for _, o := range os {
		switch x := o.(type) {
		case *ssa.Parameter:
			if !strings.HasSuffix(x.Type().String(), "context.Context") {
				all = false
			}
			desc += "param " + x.Name() + "; "
		case *ssa.FreeVar:
			if b := core.Binding(x); b != nil {
				ok, d := ctxDerived(b, depth+1)
				all = all && ok
				desc += d
			} else {
				all = false
			}
		case *ssa.Extract:
			call, ok := x.Tuple.(*ssa.Call)
			if !ok || !strings.HasPrefix(core.CallName(call), "context.With") || x.Index != 0 {
				all = false
				desc += core.Expr(o) + "; "
				continue
			}
			ok2, d := ctxDerived(call.Call.Args[0], depth+1)
			all = all && ok2
			desc += core.ModName(core.CallName(call)) + "(" + d + "); "
		case *ssa.UnOp:
			// load of captured variable cell
			if x.Op == token.MUL {
				if fv, ok := x.X.(*ssa.FreeVar); ok {
					if b := core.Binding(fv); b != nil {
						if al, ok := b.(*ssa.Alloc); ok {
							okAll := true
							for _, r := range *al.Referrers() {
								if st, ok := r.(*ssa.Store); ok && st.Addr == ssa.Value(al) {
									ok3, d := ctxDerived(st.Val, depth+1)
									okAll = okAll && ok3
									desc += d
								}
							}
							all = all && okAll
							continue
						}
					}
				}
			}
			all = false
			desc += core.Expr(o) + "; "
		default:
			all = false
			desc += core.Expr(o) + "; "
		}
	}
	return all, desc
}

func doneReceiver(ch ssa.Value) ssa.Value {
	call, ok := ch.(*ssa.Call)
	if !ok {
		return nil
	}
	if call.Call.IsInvoke() && call.Call.Method.Name() == "Done" {
		return call.Call.Value
	}
	return nil
}

func r14a(c *core.Ctx) {
	impls := transportImpls(c)
	if len(impls) < 5 {
		c.Unknown("impls", token.NoPos, nil, "five implementations of transport.Transport", fmt.Sprint(len(impls)))
	}
	set := sameGoroutineClosure(c, impls, "internal/upstream")
	n := 0
	for _, fn := range set {
		core.EachInstr(fn, func(_ *ssa.BasicBlock, _ int, in ssa.Instruction) {
			name := core.FuncName(fn)
			switch x := in.(type) {
			case *ssa.Select:
				if !x.Blocking {
					return
				}
				n++
				ok := false
				var desc []string
				for _, st := range x.States {
					if st.Dir != types.RecvOnly {
						continue
					}
					if r := doneReceiver(st.Chan); r != nil {
						d, why := ctxDerived(r, 0)
						desc = append(desc, core.Expr(r)+".Done() ["+why+"]")
						if d {
							ok = true
						}
					}
				}
				c.Check(ok, "cancellable-select:"+name, x.Pos(), fn, "a blocking select on the exchange path has a case on Done() of the caller's context (or one derived from it)", strings.Join(desc, ", "))
			case *ssa.UnOp:
				if x.Op == token.ARROW {
					n++
					c.Bad("bare-receive:"+name, x.Pos(), fn, "no bare channel receive on the exchange path (it could wait past the caller's deadline)", core.Expr(x))
				}
			case *ssa.Send:
				n++
				// sends on buffered channels created in the same function with a single send are non-blocking
				c.Bad("bare-send:"+name, x.Pos(), fn, "no bare channel send on the exchange path", core.Expr(x.Chan))
			}
		})
	}
	c.Notes = append(c.Notes, fmt.Sprintf("R14a: exchange set = %d functions from %d Transport implementations", len(set), len(impls)))
	c.Assume("A3: connpool.Pool.Get(ctx) waits in a select containing ctx.Done(); Pool.Close closes every tracked conn and conns whose dial finishes later")
}

func r14b(c *core.Ctx) {
	impls := transportImpls(c)
	set := sameGoroutineClosure(c, impls, "internal/upstream")
	for _, fn := range set {
		core.EachInstr(fn, func(_ *ssa.BasicBlock, _ int, in ssa.Instruction) {
			g, ok := in.(*ssa.Go)
			if !ok {
				return
			}
			cl, _ := spawnedClosure(g)
			if cl == nil || cl.Parent() != fn {
				return
			}
			// sends in the worker
			var sends []ssa.Instruction
			core.EachInstr(cl, func(_ *ssa.BasicBlock, _ int, wi ssa.Instruction) {
				switch s := wi.(type) {
				case *ssa.Send:
					sends = append(sends, wi)
				case *ssa.Select:
					for _, st := range s.States {
						if st.Dir == types.SendOnly {
							sends = append(sends, wi)
						}
					}
				}
			})
			if len(sends) == 0 {
				return
			}
			name := core.FuncName(cl)
			for i, s := range sends {
				key := fmt.Sprintf("handoff:%s#%d", name, i+1)
				switch x := s.(type) {
				case *ssa.Send:
					// channel: captured MakeChan with const capacity >= 1
					mk := makeChanOf(x.Chan)
					capOK := false
					if mk != nil {
						if k, ok := core.ConstInt(mk.Size); ok && k >= 1 {
							capOK = true
						}
					}
					// at most one send per path: no other send reachable from this one
					again := core.Reach(cl, s, func(y ssa.Instruction) bool {
						for _, o := range sends {
							if o == y {
								return true
							}
						}
						return false
					}, nil)
					c.Check(capOK && again == nil, key, s.Pos(), cl, "the worker's send cannot block: buffered channel (capacity >= 1) and at most one send per path", fmt.Sprintf("buffered=%v second-send-reachable=%v", capOK, again != nil))
				case *ssa.Select:
					// select { case ch <- v: ; case <-X.Done(): } with X cancelled by the parent on return
					okCtx := false
					desc := ""
					for _, st := range x.States {
						if st.Dir == types.RecvOnly {
							if r := doneReceiver(st.Chan); r != nil {
								// r must be a context whose cancel func is deferred by the parent
								for _, o := range core.Origins(boundOrSelf(r), core.OriginOpts{}) {
									if ex, ok := o.(*ssa.Extract); ok {
										if call, ok := ex.Tuple.(*ssa.Call); ok && strings.HasPrefix(core.CallName(call), "context.With") {
											cancel := extractOf(call, 1)
											for _, pc := range core.Calls(fn) {
												if d, ok := pc.(*ssa.Defer); ok && d.Call.Value == cancel {
													okCtx = true
												}
											}
											desc = core.ModName(core.CallName(call))
										}
									}
								}
							}
						}
					}
					// or the worker watches the very context the parent itself waits on: the parent leaves either by
					// receiving the hand-off or because that context is done — in which case the worker's arm fires too
					if !okCtx {
						for _, st := range x.States {
							if st.Dir != types.RecvOnly {
								continue
							}
							r := doneReceiver(st.Chan)
							if r == nil {
								continue
							}
							for _, o := range core.Origins(boundOrSelf(r), core.OriginOpts{}) {
								par, isPar := o.(*ssa.Parameter)
								if !isPar || par.Parent() != fn {
									continue
								}
								core.EachInstr(fn, func(_ *ssa.BasicBlock, _ int, pi ssa.Instruction) {
									ps, ok := pi.(*ssa.Select)
									if !ok || !ps.Blocking {
										return
									}
									watchesSame, receives := false, false
									for _, pst := range ps.States {
										if pst.Dir != types.RecvOnly {
											continue
										}
										if pr := doneReceiver(pst.Chan); pr != nil && core.Unspill(pr) == ssa.Value(par) {
											watchesSame = true
										} else if pr == nil {
											receives = true
										}
									}
									if watchesSame && receives {
										okCtx = true
										desc = "the parent's own context " + core.Expr(par)
									}
								})
							}
						}
					}
					c.Check(okCtx, key, s.Pos(), cl, "an unbuffered hand-off is a select that also watches a context the parent cancels (defer cancel()) when it returns", desc)
				}
			}
		})
	}
}

func boundOrSelf(v ssa.Value) ssa.Value {
	if b := boundValue(v); b != nil {
		if al, ok := b.(*ssa.Alloc); ok {
			// captured cell: use what is stored into it
			for _, r := range *al.Referrers() {
				if st, ok := r.(*ssa.Store); ok && st.Addr == ssa.Value(al) {
					return st.Val
				}
			}
		}
		return b
	}
	return v
}

func makeChanOf(ch ssa.Value) *ssa.MakeChan {
	for _, o := range core.Origins(boundOrSelf(ch), core.OriginOpts{}) {
		if mk, ok := o.(*ssa.MakeChan); ok {
			return mk
		}
	}
	return nil
}

func r14c(c *core.Ctx) {
	var fns []*ssa.Function
	fns = append(fns, transportImpls(c)...)
	if f := c.Anchor(tpkg, "(*QuicTransport).exchangePayload"); f != nil {
		fns = append(fns, f)
	}
	for _, fn := range fns {
		// back edges: successor dominates the source
		for _, b := range fn.Blocks {
			for _, s := range b.Succs {
				if !s.Dominates(b) {
					continue
				}
				name := core.FuncName(fn)
				key := "retry-loop:" + name
				cl := condList(b)
				// (1) reused connection
				reused := false
				for _, cnd := range core.CondsAt(b) {
					e := core.Expr(cnd.Cond)
					if !cnd.Val && (strings.Contains(e, "getConn(ctx)#1") || strings.Contains(e, "phi(false|true)") || strings.Contains(strings.ToLower(e), "newconn")) {
						reused = true
					}
				}
				// (2) retry bound
				bound := int64(-1)
				var retryPhi *ssa.Phi
				for _, cnd := range core.CondsAt(b) {
					// any spelling of `retry < K` holding on this edge: retry < K, !(retry >= K), !(retry > K-1), K > retry …
					cm, ok := core.CmpOf(cnd.Cond)
					if !ok || cm.Op != "<" {
						continue
					}
					truth := cnd.Val != cm.Neg
					if p, isPhi := cm.XV.(*ssa.Phi); isPhi && p.Block() == s && truth { // retry < k
						if k, isC := core.ConstInt(cm.YV); isC {
							retryPhi, bound = p, k
						}
					}
					if p, isPhi := cm.YV.(*ssa.Phi); isPhi && p.Block() == s && !truth { // !(k < retry): retry <= k
						if k, isC := core.ConstInt(cm.XV); isC {
							retryPhi, bound = p, k+1
						}
					}
				}
				// (3) ctx not done
				ctxOK := false
				for _, cnd := range core.CondsAt(b) {
					if !cnd.Val && strings.Contains(core.Expr(cnd.Cond), "ctxIsDone(ctx)") {
						ctxOK = true
					}
				}
				inc := false
				if retryPhi != nil {
					for i, p := range s.Preds {
						if p == b {
							inc = core.Expr(retryPhi.Edges[i]) == "("+core.Expr(retryPhi)+" + 1)" || strings.HasSuffix(core.Expr(retryPhi.Edges[i]), " + 1)")
						}
					}
				}
				c.Check(reused, key+":only-reused-conn", b.Instrs[len(b.Instrs)-1].Pos(), fn, "the exchange is retried only when the failed connection was a reused one (a failure on a fresh connection is reported)", cl)
				c.Check(bound > 0 && bound <= 7 && inc, key+":bounded", b.Instrs[len(b.Instrs)-1].Pos(), fn, "the retry counter is compared with a constant <= 6 and incremented on the retry edge", fmt.Sprintf("bound=%d incremented=%v; %s", bound, inc, cl))
				c.Check(ctxOK, key+":ctx-alive", b.Instrs[len(b.Instrs)-1].Pos(), fn, "no retry once the caller's context is done", cl)
			}
		}
	}
}

func r14d(c *core.Ctx) {
	rl := c.Anchor(tpkg, "(*pipelineConn).readLoop")
	wr := c.Anchor(tpkg, "(*pipelineConn).write")
	cw := c.Anchor(tpkg, "(*pipelineConn).closeWithErr")
	ex := c.Anchor(tpkg, "(*pipelineConn).exchange")
	st := c.Anchor(tpkg, "(*pipelineConn).Status")
	if rl == nil || wr == nil || cw == nil || ex == nil || st == nil {
		return
	}
	isCW := func(in ssa.Instruction) bool {
		ci, ok := in.(ssa.CallInstruction)
		if _, isDefer := in.(*ssa.Defer); isDefer {
			return false
		}
		return ok && core.StaticCallee(ci) == cw
	}
	bad := core.Reach(rl, nil, core.IsReturn, isCW)
	have := ""
	if bad != nil {
		have = "return at " + c.Rel(bad.Pos()) + " reachable without closeWithErr"
	}
	c.Check(bad == nil, "readLoop-exit-closes", rl.Pos(), rl, "every exit of the read loop closes the connection with a cause (waiters are woken)", have)
	// write: the error return of the UDP arm that is not a size error calls closeWithErr
	okW := false
	for _, call := range core.Calls(wr) {
		if isCW(call) && hasCond(call.Block(), "isUdpMsgSizeErr(", false) {
			okW = true
		}
	}
	c.Check(okW, "write-error-closes", wr.Pos(), wr, "a write error other than `message too long` closes the connection", "")
	// closeWithErr: cancelCause(err) and c.c.Close()
	cancels, closes := false, false
	for _, call := range core.Calls(cw) {
		if core.StaticCallee(call) == nil && !call.Common().IsInvoke() && core.Expr(call.Common().Value) == "c.cancelCause" {
			cancels = true
		}
		if call.Common().IsInvoke() && call.Common().Method.Name() == "Close" && core.Expr(call.Common().Value) == "c.c" {
			closes = true
		}
	}
	c.Check(cancels && closes, "close-cancels-and-closes", cw.Pos(), cw, "closeWithErr cancels the connection context with the cause and closes the socket", fmt.Sprintf("cancel=%v close=%v", cancels, closes))
	// the context cancelled is the one exchange selects on (same field)
	sel := false
	core.EachInstr(ex, func(_ *ssa.BasicBlock, _ int, in ssa.Instruction) {
		if s, ok := in.(*ssa.Select); ok && s.Blocking {
			for _, stt := range s.States {
				if r := doneReceiver(stt.Chan); r != nil && core.Expr(r) == "c.ctx" {
					sel = true
				}
			}
		}
	})
	c.Check(sel, "exchange-watches-conn-ctx", ex.Pos(), ex, "exchange's select has a case on the connection context's Done()", "")
	// who writes ctx/cancelCause: the constructor, from the same WithCancelCause call
	pair := false
	var ctxCall, cancelCall ssa.Value
	for _, fs := range c.FieldStores(tpkg, "pipelineConn", "ctx") {
		if ex, ok := fs.Val.(*ssa.Extract); ok {
			ctxCall = ex.Tuple
		}
	}
	for _, fs := range c.FieldStores(tpkg, "pipelineConn", "cancelCause") {
		if ex, ok := fs.Val.(*ssa.Extract); ok {
			cancelCall = ex.Tuple
		}
	}
	pair = ctxCall != nil && ctxCall == cancelCall && strings.HasPrefix(core.Expr(ctxCall), "context.WithCancelCause(")
	c.Check(pair, "ctx-cancel-pair", cw.Pos(), cw, "c.ctx and c.cancelCause come from the same context.WithCancelCause call", "")
	// Status().Closed reflects the flag
	okS := false
	core.EachInstr(st, func(_ *ssa.BasicBlock, _ int, in ssa.Instruction) {
		if s, ok := in.(*ssa.Store); ok {
			if fa, ok := s.Addr.(*ssa.FieldAddr); ok && core.FieldAddrRef(fa).Name == "Closed" && core.IsFieldLoad(core.Strip(s.Val), "pipelineConn", "closed") {
				okS = true
			}
		}
	})
	c.Check(okS, "status-closed", st.Pos(), st, "Status().Closed reports the closed flag (the pool drops dead connections)", "")
}

func r14e(c *core.Ctx) {
	rl := c.Anchor(tpkg, "(*pipelineConn).readLoop")
	exc := c.Anchor(tpkg, "(*ReuseConnTransport).exchangeConn")
	if rl != nil {
		var dl ssa.CallInstruction
		for _, call := range core.Calls(rl) {
			if call.Common().IsInvoke() && call.Common().Method.Name() == "SetReadDeadline" {
				dl = call
			}
		}
		if dl == nil {
			c.Bad("readLoop-deadline", rl.Pos(), rl, "the read loop sets a read deadline", "no SetReadDeadline")
		} else {
			e := core.Expr(dl.Common().Args[0])
			okV := false
			if d, isNP := nowPlus(dl.Common().Args[0]); isNP {
				if dc, isCall := d.(*ssa.Call); isCall {
					if f := core.StaticCallee(dc); f != nil && strings.HasSuffix(core.FuncName(f), "PipelineTransport).connIdleTimeout") {
						okV = true
					}
				}
			}
			c.Check(okV, "readLoop-deadline-value", dl.Pos(), rl, "the read deadline is now + the transport's idle time-out", e)
			// it precedes every read in the loop body
			okAll := true
			n := 0
			for _, call := range core.Calls(rl) {
				nm := core.CallName(call)
				if strings.HasSuffix(nm, "dnsutils.ReadMsgFromTCP") || strings.HasSuffix(nm, "dnsutils.ReadMsgFromUDP") {
					n++
					if !core.InstrDominates(dl, call) {
						okAll = false
					}
					// and it is re-armed in every iteration: the deadline call is inside the loop (reachable from the read)
					if !reachableFrom(rl, call, dl) {
						okAll = false
					}
				}
			}
			c.Check(okAll && n >= 2, "readLoop-deadline-each-iteration", dl.Pos(), rl, "the deadline is (re)set before every read, in every iteration", fmt.Sprintf("%d read calls", n))
		}
	}
	if exc != nil {
		for _, call := range core.Calls(exc) {
			if call.Common().IsInvoke() && call.Common().Method.Name() == "SetDeadline" {
				e := core.Expr(call.Common().Args[0])
				okV := false
				if d, isNP := nowPlus(call.Common().Args[0]); isNP {
					lv := valueLeaves(c, d)
					e = "time.Now().Add{" + strings.Join(lv, ", ") + "}"
					okV = len(lv) == 2 && lv[0] == "const:6000000000" && lv[1] == "field:ReuseConnTransport.testRespTimeout"
				}
				c.Check(okV, "exchangeConn-deadline-value", call.Pos(), exc, "the one-shot exchange deadline is now + 6 s (test override aside)", e)
			}
		}
	}
	// dial contexts carry the dial timeout
	n := 0
	for _, spec := range []struct{ fn, want string }{
		{"(*ReuseConnTransport).asyncDial$1", "t.dialTimeout()"},
		{"(*QuicTransport).runDialingCall", "t.dialTimeout()"},
		{"NewPipelineTransport$1", "t.dialTimeout()"},
	} {
		fn := c.Anchor(tpkg, spec.fn)
		if fn == nil {
			continue
		}
		var dial ssa.CallInstruction
		for _, call := range core.Calls(fn) {
			if core.StaticCallee(call) != nil || call.Common().IsInvoke() {
				continue
			}
			isDial := strings.Contains(core.Expr(call.Common().Value), "DialContext")
			if !isDial {
				// the dial function reached through a local or a captured variable (`dial := opts.DialContext`)
				for _, o := range core.Origins(call.Common().Value, core.OriginOpts{Prog: c.Prog}) {
					if u, ok := o.(*ssa.UnOp); ok && u.Op == token.MUL {
						if fa, ok := u.X.(*ssa.FieldAddr); ok && strings.HasPrefix(core.FieldAddrRef(fa).Name, "Dial") {
							isDial = true
						}
					}
					if f, ok := o.(*ssa.Field); ok && strings.HasPrefix(core.FieldValRef(f).Name, "Dial") {
						isDial = true
					}
				}
			}
			if isDial {
				dial = call
			}
		}
		if dial == nil {
			c.Bad("dial-timeout:"+spec.fn, fn.Pos(), fn, "the function dials through opts.DialContext", "dial not found")
			continue
		}
		n++
		e := core.Expr(dial.Common().Args[0])
		c.Check(strings.HasPrefix(e, "context.WithTimeout(") && strings.Contains(e, strings.TrimPrefix(spec.want, "t")), "dial-timeout:"+spec.fn, dial.Pos(), fn, "the dial runs under context.WithTimeout(…, dialTimeout())", e)
	}
	// dialTimeout defaults
	for _, t := range []string{"PipelineTransport", "ReuseConnTransport", "QuicTransport"} {
		fn := c.Anchor(tpkg, "(*"+t+").dialTimeout")
		if fn == nil {
			continue
		}
		for _, ret := range returnsOf(fn) {
			e := core.Expr(ret.Results[0])
			c.Check(strings.HasPrefix(e, "transport.defaultIfLeZero") && strings.Contains(e, "5000000000"), "dial-timeout-default:"+t, ret.Pos(), fn, "dialTimeout() = configured value or the 5 s default when <= 0", e)
		}
	}
}

// r14f: select arms on X.Done() must report X's cause.
func r14f(c *core.Ctx) {
	for _, fn := range c.SrcFuncs() {
		core.EachInstr(fn, func(_ *ssa.BasicBlock, _ int, in ssa.Instruction) {
			sel, ok := in.(*ssa.Select)
			if !ok {
				return
			}
			arms := selectArms(sel)
			for i, st := range sel.States {
				r := doneReceiver(st.Chan)
				if r == nil || st.Dir != types.RecvOnly {
					continue
				}
				arm := arms[i]
				if arm == nil {
					continue
				}
				x := core.Expr(r)
				key := fmt.Sprintf("select-cause:%s:%s", core.FuncName(fn), x)
				// every context.Cause / .Err() call in blocks dominated by this arm must be on X
				n := 0
				for _, b := range fn.Blocks {
					if !arm.Dominates(b) {
						continue
					}
					for _, bi := range b.Instrs {
						call, ok := bi.(*ssa.Call)
						if !ok {
							continue
						}
						var y ssa.Value
						if core.CallName(call) == "context.Cause" {
							y = call.Call.Args[0]
						} else if call.Call.IsInvoke() && call.Call.Method.Name() == "Err" && strings.HasSuffix(call.Call.Value.Type().String(), "context.Context") {
							y = call.Call.Value
						}
						if y == nil {
							continue
						}
						n++
						if core.Expr(y) != x && cancelOnlyChildOf(fn, r, y, sel) {
							c.OK(key, call.Pos(), fn, "the arm taken on "+x+".Done() reports the cause of that same context", x+" is context.WithCancel("+core.Expr(y)+") whose cancel is only deferred: it is done only when "+core.Expr(y)+" is")
							continue
						}
						c.Check(core.Expr(y) == x, key, call.Pos(), fn, "the arm taken on "+x+".Done() reports the cause of that same context (the cause of a context that is not done is nil: the caller would get (nil, nil))", "reports cause of "+core.Expr(y))
					}
				}
				_ = n
			}
		})
	}
}

// cancelOnlyChildOf: x = context.WithCancel[Cause](y) and its cancel function is never called on a path
// that reaches the select (only deferred), so x.Done() fires only when y is done.
func cancelOnlyChildOf(fn *ssa.Function, x, y ssa.Value, sel *ssa.Select) bool {
	for _, o := range core.Origins(x, core.OriginOpts{}) {
		ex, ok := o.(*ssa.Extract)
		if !ok || ex.Index != 0 {
			return false
		}
		call, ok := ex.Tuple.(*ssa.Call)
		if !ok {
			return false
		}
		n := core.CallName(call)
		if n != "context.WithCancel" && n != "context.WithCancelCause" {
			return false
		}
		if core.Expr(call.Call.Args[0]) != core.Expr(y) {
			return false
		}
		cancel := extractOf(call, 1)
		if cancel == nil {
			return true
		}
		for _, r := range core.RefsThrough(cancel) {
			switch u := r.(type) {
			case *ssa.Defer:
				continue
			case *ssa.DebugRef:
				continue
			case *ssa.Call:
				if u.Call.Value == cancel && reachableFrom(fn, u, sel) {
					return false
				}
			default:
				return false // escapes
			}
		}
	}
	return true
}

// r14g: lock pairing for the whole module.
func r14g(c *core.Ctx) {
	holders := map[string]string{
		"(*app/router.udpServer).pickAndLockWmConn": "wrapper that returns with c.wm held; its only caller writeResp releases it (checked below)",
	}
	lockPairing(c, c.SrcFuncs(), holders)
	// the wrapper's callers release the lock of the returned conn on all paths
	if w := c.AnchorOpt("app/router", "(*udpServer).pickAndLockWmConn"); w != nil {
		for _, s := range c.CallSitesOf(w) {
			v, ok := s.Call.(ssa.Value)
			if !ok {
				continue
			}
			isRel := func(in ssa.Instruction) bool {
				ci, ok := isLockOp(in, lockRelease, "")
				if !ok {
					return false
				}
				return strings.HasPrefix(mutexOf(ci), core.Expr(v)+".")
			}
			bad := core.Reach(s.Fn, s.Call, core.IsExit, isRel)
			c.Check(bad == nil, "lock-paired:"+core.FuncName(s.Fn)+":wm-of-picked-conn", s.Call.Pos(), s.Fn, "the caller of pickAndLockWmConn unlocks the returned connection's write mutex on all paths", "")
		}
	}
}
