package rules

import (
	"fmt"
	"go/token"
	"go/types"
	"strings"

	"golang.org/x/tools/go/ssa"

	"mosverif/core"
)

// intRange of a basic integer type (64-bit platform for int/uint).
func intRange(t types.Type) (lo, hi int64, unsigned64 bool, ok bool) {
	b, isB := t.Underlying().(*types.Basic)
	if !isB || b.Info()&types.IsInteger == 0 {
		return 0, 0, false, false
	}
	switch b.Kind() {
	case types.Int8:
		return -128, 127, false, true
	case types.Int16:
		return -32768, 32767, false, true
	case types.Int32:
		return -1 << 31, 1<<31 - 1, false, true
	case types.Int, types.Int64:
		return -1 << 63, 1<<63 - 1, false, true
	case types.Uint8:
		return 0, 255, false, true
	case types.Uint16:
		return 0, 65535, false, true
	case types.Uint32:
		return 0, 1<<32 - 1, false, true
	case types.Uint, types.Uint64, types.Uintptr:
		return 0, 1<<63 - 1, true, true
	}
	return 0, 0, false, false
}

// narrowReviewed: conversions whose truncation is intended or whose range argument lies outside the linear prover.
// key: function | substring of the operand expression.
var narrowReviewed = map[string]string{
	"(internal/dnsmsg.Name).pack|compression[":        "byte(ptr) / byte(ptr>>8|0xC0) split a 14-bit compression pointer into its two octets: the low octet is a deliberate truncation; map values are stored only under `newPtr <= 0x3FFF` (R02f)",
	"(*internal/cache.RedisCache).buildValue|.Unix()": "Unix timestamps of the current time (non-negative after 1970); a time value, not an input length",
	"(*internal/cache.RedisCache).Get|Uint64(":        "stored timestamps read back from redis: a value >= 2^63 becomes a time in the past and the entry is treated as expired; no length or offset is derived from it",
	"(*internal/dnsmsg.NAMEResource).pack|":           "RDLENGTH is written as uint16(off)-uint16(dataStartOff): exact modulo 2^16 when the packed RDATA is at most 65535 octets; the RDATA is one name of at most 255 octets (Scan rejects longer names). A packed-size argument on the encode path, outside the decode of attacker bytes",
	"(*internal/dnsmsg.SOA).pack|":                    "RDLENGTH difference (see NAMEResource.pack): two names of at most 255 octets and five 32-bit fields",
	"(*internal/dnsmsg.MX).pack|":                     "RDLENGTH difference (see NAMEResource.pack): a 16-bit preference and one name",
	"(*internal/dnsmsg.SRV).pack|":                    "RDLENGTH difference (see NAMEResource.pack): three 16-bit fields and one name",
	"app/router.packRespTCP|m.Pack(":                  "n <= 65535 is the size argument of Msg.Pack: truncation to the size limit is C09's subject (R09a/R09b check the guard before every element)",
}

// decodeRoots: the functions that turn attacker bytes into messages; R01f under C01 covers their closure (an
// over-long name or a lying length must be rejected there, not wrapped). The same rule runs over the encoder for
// C02 and over the upstream transports for C05 (query-id exhaustion).
var decodeRoots = []struct{ pkg, fn string }{
	{"internal/dnsmsg", "UnpackMsg"}, {"internal/dnsutils", "ReadMsgFromTCP"}, {"internal/dnsutils", "ReadMsgFromUDP"},
	{"app/router", "unpackCacheMsg"}, {"app/router", "(*httpHandler).readReqMsg"}, {"app/router", "(*fasthttpHandler).readReqMsg"},
}

func r01f(c *core.Ctx) {
	be := engineFor(c)
	var roots []*ssa.Function
	for _, r := range decodeRoots {
		if f := c.Anchor(r.pkg, r.fn); f != nil {
			roots = append(roots, f)
		}
	}
	set := be.g.closure(roots)
	narrowing(c, "decode closure", func(fn *ssa.Function) bool { return set[fn] })
}

// r01fCodec: the same obligation over the whole codec package (encoder side: RDLENGTH, compression pointers).
func r01fCodec(c *core.Ctx) {
	narrowing(c, "package internal/dnsmsg", func(fn *ssa.Function) bool {
		return fn.Pkg != nil && fn.Pkg.Pkg.Path() == core.PkgPath("internal/dnsmsg") || (fn.Parent() != nil && fn.Parent().Pkg != nil && fn.Parent().Pkg.Pkg.Path() == core.PkgPath("internal/dnsmsg"))
	})
}

// r01fTransport: …and over the upstream transports (query ids, length prefixes).
func r01fTransport(c *core.Ctx) {
	narrowing(c, "package internal/upstream/transport", func(fn *ssa.Function) bool {
		for f := fn; f != nil; f = f.Parent() {
			if f.Pkg != nil {
				return f.Pkg.Pkg.Path() == core.PkgPath(tpkg)
			}
		}
		return false
	})
}

func narrowing(c *core.Ctx, scopeName string, inScope func(fn *ssa.Function) bool) {
	be := engineFor(c)
	n, proved := 0, 0
	for _, fn := range be.scopeFns {
		if !be.netSet[fn] || !inScope(fn) {
			continue
		}
		name := core.FuncName(fn)
		seq := 0
		core.EachInstr(fn, func(b *ssa.BasicBlock, _ int, in ssa.Instruction) {
			cv, ok := in.(*ssa.Convert)
			if !ok {
				return
			}
			slo, shi, su, ok1 := intRange(cv.X.Type())
			tlo, thi, tu, ok2 := intRange(cv.Type())
			if !ok1 || !ok2 {
				return
			}
			if _, isC := cv.X.(*ssa.Const); isC {
				return
			}
			if tlo <= slo && (thi >= shi && !(su && !tu)) {
				return // widening
			}
			n++
			seq++
			key := fmt.Sprintf("narrowing:%s#%d", name, seq)
			need := fmt.Sprintf("%s(%s) does not wrap: the operand lies in [%d, %d]", cv.Type(), core.Expr(cv.X), tlo, thi)
			// modular differences uint16(a) - uint16(b): the result is exact when 0 <= a-b <= 65535, whatever a and b are
			if okM, why := modularDifference(be, cv, b); okM {
				proved++
				c.OK(key, cv.Pos(), fn, need, why)
				return
			}
			if okS, why := scannerLabelLen(c, cv, b, thi); okS {
				proved++
				c.OK(key, cv.Pos(), fn, need, why)
				return
			}
			p := be.prover(fn)
			x := p.Env.Of(cv.X)
			okLo, okHi := true, true
			var whys []string
			if tlo > slo {
				var w string
				okLo, w = p.Prove(x.AddC(-tlo), b)
				whys = append(whys, w)
			}
			if thi < shi || (su && !tu) {
				var w string
				okHi, w = p.Prove(core.LinConst(thi).Sub(x), b)
				whys = append(whys, w)
			}
			if !(okLo && okHi) {
				iv := core.IntervalOf(cv.X, nil, 0)
				if !iv.Top && iv.Lo >= tlo && iv.Hi <= thi {
					okLo, okHi = true, true
					whys = []string{fmt.Sprintf("interval of the operand: [%d, %d]", iv.Lo, iv.Hi)}
				}
			}
			if okLo && okHi {
				proved++
				c.OK(key, cv.Pos(), fn, need, strings.Join(whys, "; "))
				return
			}
			if _, lifted := localToParams(p, fn, x); lifted && len(c.CallSitesOf(fn)) > 0 && !okLo && okHi {
				// only the sign of a parameter-derived offset is open: offsets are non-negative by the `off >= 0` template
			}
			for k, reason := range narrowReviewed {
				parts := strings.SplitN(k, "|", 2)
				if parts[0] == name && strings.Contains(core.Expr(cv.X), parts[1]) {
					c.Reviewed(key, cv.Pos(), fn, need, reason)
					return
				}
			}
			c.Unknown(key, cv.Pos(), fn, need, fmt.Sprintf("lower bound proved=%v upper bound proved=%v: %s", okLo, okHi, factList(p, b, x)))
		})
	}
	c.Notes = append(c.Notes, fmt.Sprintf("R01f: %d narrowing integer conversions in the %s, %d proved in range by the prover/interval evaluator", n, scopeName, proved))
}

// scannerLabelLen: the operand is len(scanner.Label()) inside the body of a `for scanner.Scan()` loop: Scan's summary
// (verified on Scan itself) bounds the label length by 63.
func scannerLabelLen(c *core.Ctx, cv *ssa.Convert, b *ssa.BasicBlock, hi int64) (bool, string) {
	lc, ok := cv.X.(*ssa.Call)
	if !ok || core.CallName(lc) != "builtin.len" {
		return false, ""
	}
	lab, ok := core.Strip(lc.Call.Args[0]).(*ssa.Call)
	if !ok || !strings.HasSuffix(core.CallName(lab), "NameScanner).Label") {
		return false, ""
	}
	scan := c.Anchor("internal/dnsmsg", "(*NameScanner).Scan")
	if scan == nil {
		return false, ""
	}
	recv := core.Strip(lab.Call.Args[0])
	// a Scan() == true on the same scanner dominates, and no other Scan call lies between it and Label()
	for _, cnd := range core.CondsAt(lab.Block()) {
		sc, ok := cnd.Cond.(*ssa.Call)
		if !ok || !cnd.Val || core.StaticCallee(sc) != scan || core.Strip(sc.Call.Args[0]) != recv {
			continue
		}
		again := core.Reach(lab.Parent(), sc, func(in ssa.Instruction) bool { return in == ssa.Instruction(lab) }, func(in ssa.Instruction) bool {
			ci, ok := in.(*ssa.Call)
			return ok && ci != sc && core.StaticCallee(ci) == scan
		})
		if again == nil {
			continue
		}
		k, why := scanLabelBound(c, scan)
		if k >= 0 && k <= hi {
			return true, why
		}
	}
	return false, ""
}

var scanLabelMemo = map[*ssa.Function]int64{}

// scanLabelBound: the largest K in {63, 255} such that every `return true` of Scan is dominated by a store
// s.label = v with len(v) <= K; Label() returns exactly that field.
func scanLabelBound(c *core.Ctx, scan *ssa.Function) (int64, string) {
	if k, ok := scanLabelMemo[scan]; ok {
		return k, fmt.Sprintf("Scan() returned true: len(label) <= %d (proved on Scan's return paths; Label() returns the field unchanged)", k)
	}
	label := c.Func("internal/dnsmsg", "(*NameScanner).Label")
	res := int64(-1)
	if label != nil && len(returnsOf(label)) == 1 {
		// Label() is the plain getter of the field
		if ld, ok := returnsOf(label)[0].Results[0].(*ssa.UnOp); ok {
			if fa, ok := ld.X.(*ssa.FieldAddr); ok && core.FieldAddrRef(fa).Name == "label" {
				p := core.NewProver(scan, nil)
				p.Init()
				for _, k := range []int64{63, 255} {
					okAll, n := true, 0
					for _, ret := range returnsOf(scan) {
						if t, isC := core.ConstBool(ret.Results[0]); !isC || !t {
							if !isC {
								okAll = false
							}
							continue
						}
						n++
						var last *ssa.Store
						core.EachInstr(scan, func(_ *ssa.BasicBlock, _ int, in ssa.Instruction) {
							if st, ok := in.(*ssa.Store); ok {
								if f2, ok := st.Addr.(*ssa.FieldAddr); ok && core.FieldAddrRef(f2).Name == "label" && core.InstrDominates(st, ret) {
									last = st
								}
							}
						})
						if last == nil {
							okAll = false
							continue
						}
						if ok, _ := p.Prove(core.LinConst(k).Sub(p.Env.LenOf(last.Val)), ret.Block()); !ok {
							okAll = false
						}
					}
					if okAll && n > 0 {
						res = k
						break
					}
				}
			}
		}
	}
	scanLabelMemo[scan] = res
	return res, fmt.Sprintf("Scan() returned true: len(label) <= %d (proved on Scan's return paths; Label() returns the field unchanged)", res)
}

// modularDifference: cv is one operand of `uint16(a) - uint16(b)` (both narrowing conversions of ints): the difference
// modulo 2^16 equals a-b whenever 0 <= a-b <= 65535; that is what is proved.
func modularDifference(be *boundsEngine, cv *ssa.Convert, b *ssa.BasicBlock) (bool, string) {
	refs := cv.Referrers()
	if refs == nil || len(*refs) != 1 {
		return false, ""
	}
	bo, ok := (*refs)[0].(*ssa.BinOp)
	if !ok || bo.Op != token.SUB {
		return false, ""
	}
	cx, ok1 := bo.X.(*ssa.Convert)
	cy, ok2 := bo.Y.(*ssa.Convert)
	if !ok1 || !ok2 {
		return false, ""
	}
	p := be.prover(cv.Parent())
	d := p.Env.Of(cx.X).Sub(p.Env.Of(cy.X))
	okLo, _ := p.Prove(d, bo.Block())
	okHi, _ := p.Prove(core.LinConst(65535).Sub(d), bo.Block())
	if okLo && okHi {
		return true, "modular difference: 0 <= " + core.Expr(cx.X) + " - " + core.Expr(cy.X) + " <= 65535 proved"
	}
	if okLo {
		return false, ""
	}
	return false, ""
}
