package rules

import (
	"fmt"
	"go/token"
	"sort"
	"strings"

	"golang.org/x/tools/go/ssa"

	"mosverif/core"
)

// ---- mutex regions ----

var lockAcquire = map[string]bool{"(*sync.Mutex).Lock": true, "(*sync.RWMutex).Lock": true, "(*sync.RWMutex).RLock": true}
var lockTry = map[string]bool{"(*sync.Mutex).TryLock": true, "(*sync.RWMutex).TryLock": true, "(*sync.RWMutex).TryRLock": true}
var lockRelease = map[string]bool{"(*sync.Mutex).Unlock": true, "(*sync.RWMutex).Unlock": true, "(*sync.RWMutex).RUnlock": true}

// mutexOf returns the normalised expression of the mutex a lock-call operates on ("c.m", "t.m", "e.l").
func mutexOf(call ssa.CallInstruction) string {
	args := call.Common().Args
	if len(args) == 0 {
		return ""
	}
	return strings.TrimPrefix(core.Expr(args[0]), "&")
}

func isLockOp(in ssa.Instruction, set map[string]bool, mutex string) (ssa.CallInstruction, bool) {
	ci, ok := in.(ssa.CallInstruction)
	if !ok {
		return nil, false
	}
	if _, isDefer := in.(*ssa.Defer); isDefer {
		return nil, false
	}
	if !set[core.CallName(ci)] {
		return nil, false
	}
	if mutex != "" && mutexOf(ci) != mutex {
		return nil, false
	}
	return ci, true
}

// lockHeldAt reports whether a mutex whose expression ends with mutexSuffix (e.g. ".m") is held at `at`:
// some acquisition dominates `at` (or a successful Try* edge does) and no release of the same mutex
// lies on any path from it to `at`. Deferred releases run at exit and do not end the region.
func lockHeldAt(fn *ssa.Function, at ssa.Instruction, mutexSuffix string) (bool, string) {
	var found string
	core.EachInstr(fn, func(_ *ssa.BasicBlock, _ int, in ssa.Instruction) {
		if found != "" {
			return
		}
		var acq ssa.CallInstruction
		if ci, ok := isLockOp(in, lockAcquire, ""); ok && core.InstrDominates(in, at) {
			acq = ci
		} else if ci, ok := isLockOp(in, lockTry, ""); ok {
			v := in.(ssa.Value)
			for _, cnd := range core.CondsAt(at.Block()) {
				if cnd.Cond == v && cnd.Val {
					acq = ci
				}
			}
		}
		if acq == nil {
			return
		}
		m := mutexOf(acq)
		if !strings.HasSuffix(m, mutexSuffix) {
			return
		}
		// a release between?
		if at == ssa.Instruction(acq) {
			return
		}
		reached := core.Reach(fn, acq, func(x ssa.Instruction) bool { return x == at }, func(x ssa.Instruction) bool {
			_, rel := isLockOp(x, lockRelease, m)
			return rel
		})
		if reached != nil {
			found = m
		}
	})
	return found != "", found
}

// lockPairing checks, for every Lock/RLock (and successful Try*) in fn, that each path to a function
// exit releases the same mutex, directly or through a registered defer. Wrappers that intentionally
// return with the lock held must be listed in `holders` (function name -> reason).
func lockPairing(c *core.Ctx, fns []*ssa.Function, holders map[string]string) {
	for _, fn := range fns {
		core.EachInstr(fn, func(b *ssa.BasicBlock, _ int, in ssa.Instruction) {
			var acq ssa.CallInstruction
			var start ssa.Instruction = in
			if ci, ok := isLockOp(in, lockAcquire, ""); ok {
				acq = ci
			} else if ci, ok := isLockOp(in, lockTry, ""); ok {
				acq = ci
				// region starts on the success edge
				v := in.(ssa.Value)
				start = nil
				for _, bb := range fn.Blocks {
					if iff, ok := bb.Instrs[len(bb.Instrs)-1].(*ssa.If); ok && iff.Cond == v {
						start = bb.Succs[0].Instrs[0]
					}
				}
				if start == nil {
					c.Unknown("lock-paired:"+core.FuncName(fn)+":"+mutexOf(ci), in.Pos(), fn, "the result of TryLock is branched on", "no If on the TryLock result")
					return
				}
			}
			if acq == nil {
				return
			}
			m := mutexOf(acq)
			key := "lock-paired:" + core.FuncName(fn) + ":" + m
			if reason, ok := holders[core.FuncName(fn)]; ok {
				c.Reviewed(key, in.Pos(), fn, "every acquisition is released on all paths", reason)
				return
			}
			isRel := func(x ssa.Instruction) bool {
				if _, rel := isLockOp(x, lockRelease, m); rel {
					return true
				}
				// a defer of the release registered on the path covers every later exit
				if d, ok := x.(*ssa.Defer); ok && lockRelease[core.CallName(d)] && mutexOf(d) == m {
					return true
				}
				return false
			}
			// defer registered before the acquisition (dominating) also covers
			covered := false
			core.EachInstr(fn, func(_ *ssa.BasicBlock, _ int, x ssa.Instruction) {
				if d, ok := x.(*ssa.Defer); ok && lockRelease[core.CallName(d)] && mutexOf(d) == m && core.InstrDominates(d, in) {
					covered = true
				}
			})
			if covered {
				c.OK(key, in.Pos(), fn, "every acquisition is released on all paths", "release deferred before the acquisition")
				return
			}
			var bad ssa.Instruction
			if start != in && isRel(start) {
				bad = nil
			} else if start != in && core.IsExit(start) {
				bad = start
			} else {
				bad = core.Reach(fn, start, core.IsExit, isRel)
			}
			if bad != nil {
				c.Bad(key, in.Pos(), fn, "every acquisition of "+m+" is released on all paths to a function exit",
					fmt.Sprintf("the exit at %s is reachable from the acquisition without releasing %s: every later Lock on it blocks forever", c.Rel(bad.Pos()), m))
			} else {
				c.OK(key, in.Pos(), fn, "every acquisition is released on all paths", "")
			}
		})
	}
}

// ---- misc ----

// extractOf returns the Extract #idx of a tuple-valued call, or nil.
func extractOf(call ssa.Value, idx int) ssa.Value {
	refs := call.Referrers()
	if refs == nil {
		return nil
	}
	for _, r := range *refs {
		if e, ok := r.(*ssa.Extract); ok && e.Index == idx {
			return e
		}
	}
	return nil
}

// callsOfFn returns the call instructions in fn whose static callee is target.
func callsOfFn(fn, target *ssa.Function) []ssa.CallInstruction {
	var out []ssa.CallInstruction
	for _, call := range core.Calls(fn) {
		if core.StaticCallee(call) == target {
			out = append(out, call)
		}
	}
	return out
}

// upperBoundAt derives, from the branch conditions dominating block b, a constant upper bound for the
// value whose Expr is e (e.g. "c.nextQid"): (e > K)=false => K; (e >= K)=false => K-1; (e <= K)=true => K; (e < K)=true => K-1.
func upperBoundAt(b *ssa.BasicBlock, e string) (int64, bool) {
	best, have := int64(0), false
	upd := func(k int64) {
		if !have || k < best {
			best, have = k, true
		}
	}
	for _, cnd := range core.CondsAt(b) {
		bo, ok := cnd.Cond.(*ssa.BinOp)
		if !ok {
			continue
		}
		if core.Expr(bo.X) == e {
			k, isC := core.ConstInt(bo.Y)
			if !isC {
				continue
			}
			switch {
			case bo.Op == token.GTR && !cnd.Val:
				upd(k)
			case bo.Op == token.GEQ && !cnd.Val:
				upd(k - 1)
			case bo.Op == token.LEQ && cnd.Val:
				upd(k)
			case bo.Op == token.LSS && cnd.Val:
				upd(k - 1)
			case bo.Op == token.EQL && cnd.Val:
				upd(k)
			}
		} else if core.Expr(bo.Y) == e {
			k, isC := core.ConstInt(bo.X)
			if !isC {
				continue
			}
			switch {
			case bo.Op == token.LSS && !cnd.Val: // !(K < e) => e <= K
				upd(k)
			case bo.Op == token.LEQ && !cnd.Val:
				upd(k - 1)
			case bo.Op == token.GEQ && cnd.Val:
				upd(k)
			case bo.Op == token.GTR && cnd.Val:
				upd(k - 1)
			}
		}
	}
	return best, have
}

// mapOps lists updates/deletes/lookups of a map held in field (tname.fname) across the module.
type mapOp struct {
	Fn   *ssa.Function
	In   ssa.Instruction
	Kind string // "update" | "delete" | "lookup" | "range" | "len"
	Key  ssa.Value
	Val  ssa.Value
}

func mapOps(c *core.Ctx, tname, fname string) []mapOp {
	var out []mapOp
	for _, fn := range c.SrcFuncs() {
		core.EachInstr(fn, func(_ *ssa.BasicBlock, _ int, in ssa.Instruction) {
			isField := func(v ssa.Value) bool { return core.IsFieldLoad(core.Strip(v), tname, fname) }
			switch x := in.(type) {
			case *ssa.MapUpdate:
				if isField(x.Map) {
					out = append(out, mapOp{fn, in, "update", x.Key, x.Value})
				}
			case *ssa.Lookup:
				if isField(x.X) {
					out = append(out, mapOp{fn, in, "lookup", x.Index, nil})
				}
			case *ssa.Range:
				if isField(x.X) {
					out = append(out, mapOp{fn, in, "range", nil, nil})
				}
			case *ssa.Call:
				n := core.CallName(x)
				if n == "builtin.delete" && isField(x.Call.Args[0]) {
					out = append(out, mapOp{fn, in, "delete", x.Call.Args[1], nil})
				}
				if n == "builtin.len" && isField(x.Call.Args[0]) {
					out = append(out, mapOp{fn, in, "len", nil, nil})
				}
			}
		})
	}
	return out
}

// spawnedClosure returns the function literal started by a go statement / pool.Go / gopool.Go /
// time.AfterFunc call, or nil.
func spawnedClosure(in ssa.Instruction) (*ssa.Function, *ssa.MakeClosure) {
	var cands []ssa.Value
	switch x := in.(type) {
	case *ssa.Go:
		cands = append(cands, x.Call.Value)
		cands = append(cands, x.Call.Args...)
	case *ssa.Call:
		n := core.CallName(x)
		if n == core.M("internal/pool.Go") || n == "github.com/IrineSistiana/gopool.Go" || n == "time.AfterFunc" {
			cands = append(cands, x.Call.Args...)
		}
	}
	for _, v := range cands {
		switch f := v.(type) {
		case *ssa.MakeClosure:
			if fn, ok := f.Fn.(*ssa.Function); ok {
				return fn, f
			}
		case *ssa.Function:
			return f, nil
		}
	}
	return nil, nil
}

func isSpawn(in ssa.Instruction) bool {
	switch x := in.(type) {
	case *ssa.Go:
		return true
	case *ssa.Call:
		n := core.CallName(x)
		return n == core.M("internal/pool.Go") || n == "github.com/IrineSistiana/gopool.Go" || n == "time.AfterFunc"
	}
	return false
}

// ---- branch-consistent reachability ----

// condKeyOf normalises a branch condition: NOTs are peeled into the polarity, `x == nil` / `x != nil` are keyed by x.
func condKeyOf(v ssa.Value) (key string, positive bool) {
	positive = true
	for {
		if u, ok := v.(*ssa.UnOp); ok && u.Op == token.NOT {
			v = u.X
			positive = !positive
			continue
		}
		break
	}
	if tv, trueIsNil, ok := core.NilTest(v); ok {
		// key: "tv is nil"; the condition is true iff (tv is nil) == trueIsNil
		if !trueIsNil {
			positive = !positive
		}
		return fmt.Sprintf("nil:%p", tv), positive
	}
	return fmt.Sprintf("v:%p", v), positive
}

// reachConsistent reports whether some path from `from` (nil = function entry) reaches an instruction satisfying
// target without passing one satisfying avoid, where a path may not take contradictory outcomes for the same
// condition value. Conditions computed inside a loop are not tracked (they may differ between iterations).
func reachConsistent(fn *ssa.Function, from ssa.Instruction, target, avoid func(ssa.Instruction) bool) ssa.Instruction {
	inLoop := map[*ssa.BasicBlock]bool{}
	for _, l := range naturalLoops(fn) {
		for b := range l.body {
			inLoop[b] = true
		}
	}
	tracked := func(cond ssa.Value) bool {
		v := cond
		for {
			if u, ok := v.(*ssa.UnOp); ok && u.Op == token.NOT {
				v = u.X
				continue
			}
			break
		}
		if tv, _, ok := core.NilTest(v); ok {
			v = tv
		}
		if in, ok := v.(ssa.Instruction); ok && inLoop[in.Block()] {
			return false
		}
		return true
	}
	type state struct {
		b   *ssa.BasicBlock
		env string
	}
	seen := map[state]bool{}
	var found ssa.Instruction
	var walk func(b *ssa.BasicBlock, start int, env map[string]bool)
	envStr := func(env map[string]bool) string {
		var ks []string
		for k, v := range env {
			ks = append(ks, fmt.Sprintf("%s=%v", k, v))
		}
		sort.Strings(ks)
		return strings.Join(ks, ",")
	}
	walk = func(b *ssa.BasicBlock, start int, env map[string]bool) {
		if found != nil {
			return
		}
		if start == 0 {
			st := state{b, envStr(env)}
			if seen[st] {
				return
			}
			seen[st] = true
		}
		for i := start; i < len(b.Instrs); i++ {
			in := b.Instrs[i]
			if target(in) {
				found = in
				return
			}
			if avoid != nil && avoid(in) {
				return
			}
		}
		if iff, ok := b.Instrs[len(b.Instrs)-1].(*ssa.If); ok && tracked(iff.Cond) {
			key, pos := condKeyOf(iff.Cond)
			for i, s := range b.Succs {
				val := (i == 0) == pos // value of the keyed proposition on this edge
				if old, has := env[key]; has && old != val {
					continue
				}
				env2 := map[string]bool{}
				for k, v := range env {
					env2[k] = v
				}
				env2[key] = val
				walk(s, 0, env2)
			}
			return
		}
		for _, s := range b.Succs {
			walk(s, 0, env)
		}
	}
	if from == nil {
		if len(fn.Blocks) > 0 {
			walk(fn.Blocks[0], 0, map[string]bool{})
		}
	} else {
		walk(from.Block(), core.InstrIndex(from)+1, map[string]bool{})
	}
	return found
}

// helperReach: fn, its closures, and the module functions of the same package it statically calls (transitively up to
// depth): where a maintainer may have moved part of fn's body by extracting a helper.
func helperReach(fn *ssa.Function, depth int) []*ssa.Function {
	seen := map[*ssa.Function]bool{}
	var out []*ssa.Function
	var add func(f *ssa.Function, d int)
	add = func(f *ssa.Function, d int) {
		if f == nil || seen[f] || f.Blocks == nil {
			return
		}
		seen[f] = true
		out = append(out, f)
		for _, a := range f.AnonFuncs {
			add(a, d)
		}
		if d == 0 {
			return
		}
		for _, call := range core.Calls(f) {
			cal := core.StaticCallee(call)
			if cal == nil || cal.Pkg == nil || fn.Pkg == nil || cal.Pkg != fn.Pkg {
				continue
			}
			add(cal, d-1)
		}
	}
	add(fn, depth)
	return out
}

// nowPlus: v is `time.Now().Add(d)`; returns d.
func nowPlus(v ssa.Value) (ssa.Value, bool) {
	add, ok := v.(*ssa.Call)
	if !ok || core.CallName(add) != "(time.Time).Add" || len(add.Call.Args) != 2 {
		return nil, false
	}
	now, ok := add.Call.Args[0].(*ssa.Call)
	if !ok || core.CallName(now) != "time.Now" {
		return nil, false
	}
	return add.Call.Args[1], true
}

// valueLeaves: what a value can be, followed through phis, local variables and the results of module functions
// (helpers): "const:<n>", "field:<Struct.field>", "param:<name>", or the rendered expression of anything else.
func valueLeaves(c *core.Ctx, v ssa.Value) []string {
	var out []string
	seenFn := map[*ssa.Function]bool{}
	var through func(cc *ssa.Call, idx int) []ssa.Value
	through = func(cc *ssa.Call, idx int) []ssa.Value {
		f := core.StaticCallee(cc)
		if f == nil || f.Pkg == nil || !core.IsModule(f.Pkg.Pkg) || f.Blocks == nil || seenFn[f] {
			return nil
		}
		seenFn[f] = true
		var vs []ssa.Value
		for _, ret := range returnsOf(f) {
			rs := core.ReturnResults(ret)
			if idx < len(rs) {
				vs = append(vs, rs[idx])
			}
		}
		return vs
	}
	for _, o := range core.Origins(v, core.OriginOpts{ThroughCall: through}) {
		switch x := o.(type) {
		case *ssa.Const:
			if k, ok := core.ConstInt(x); ok {
				out = append(out, fmt.Sprintf("const:%d", k))
			} else {
				out = append(out, "const:"+x.String())
			}
		case *ssa.Parameter:
			out = append(out, "param:"+x.Name())
		case *ssa.UnOp:
			if fa, ok := x.X.(*ssa.FieldAddr); ok && x.Op == token.MUL {
				out = append(out, "field:"+core.FieldAddrRef(fa).String())
			} else {
				out = append(out, core.Expr(o))
			}
		case *ssa.Field:
			out = append(out, "field:"+core.FieldValRef(x).String())
		default:
			out = append(out, core.Expr(o))
		}
	}
	sort.Strings(out)
	return dedup(out)
}

// closuresOf: the direct closures of fn, including named functions that took the place of one (see core.AliasedClosures).
func closuresOf(fn *ssa.Function) []*ssa.Function {
	return append(append([]*ssa.Function{}, fn.AnonFuncs...), core.AliasedClosures(fn)...)
}

// bindToCaller: a parameter of a helper is read as the argument the caller passes for it (first static call site of the
// helper in caller); anything else is returned unchanged.
func bindToCaller(v ssa.Value, caller *ssa.Function) ssa.Value {
	p, ok := core.Strip(v).(*ssa.Parameter)
	if !ok || p.Parent() == caller || p.Parent() == nil {
		return v
	}
	h := p.Parent()
	for _, call := range callsOfFn(caller, h) {
		args := core.CallArgs(call)
		for k, q := range h.Params {
			if q == p && k < len(args) {
				return args[k]
			}
		}
	}
	return v
}

// throughHelpers returns a ThroughCall function for core.Origins that looks into the results of module functions (a
// value computed by a helper is what the helper returns); each function is entered once.
func throughHelpers() func(cc *ssa.Call, idx int) []ssa.Value {
	seenFn := map[*ssa.Function]bool{}
	return func(cc *ssa.Call, idx int) []ssa.Value {
		f := core.StaticCallee(cc)
		if f == nil || f.Pkg == nil || !core.IsModule(f.Pkg.Pkg) || f.Blocks == nil || seenFn[f] {
			return nil
		}
		seenFn[f] = true
		var vs []ssa.Value
		for _, ret := range returnsOf(f) {
			if rs := core.ReturnResults(ret); idx < len(rs) {
				vs = append(vs, rs[idx])
			}
		}
		return vs
	}
}

// upperClamp recognises v = min(inner, limit): the builtin, or phi(limit | inner) where the limit edge is taken exactly
// when limit < inner. limit is returned as a value (often a constant).
func upperClamp(v ssa.Value) (inner, limit ssa.Value, ok bool) {
	switch x := v.(type) {
	case *ssa.Call:
		if bi, isB := x.Call.Value.(*ssa.Builtin); isB && bi.Name() == "min" && len(x.Call.Args) == 2 {
			for i := 0; i < 2; i++ {
				if _, isC := core.ConstInt(x.Call.Args[i]); isC {
					return x.Call.Args[1-i], x.Call.Args[i], true
				}
			}
			return x.Call.Args[0], x.Call.Args[1], true
		}
	case *ssa.Phi:
		if len(x.Edges) != 2 {
			return nil, nil, false
		}
		for i := 0; i < 2; i++ {
			lim, in := x.Edges[i], x.Edges[1-i]
			pred := x.Block().Preds[i]
			conds := core.CondsAt(pred)
			if iff, isIf := pred.Instrs[len(pred.Instrs)-1].(*ssa.If); isIf && pred.Succs[0] != pred.Succs[1] {
				conds = append(conds, struct {
					Cond ssa.Value
					Val  bool
				}{iff.Cond, pred.Succs[0] == x.Block()})
			}
			for _, cnd := range conds {
				cm, isCmp := core.CmpOf(cnd.Cond)
				if !isCmp || cm.Op != "<" || cnd.Val == cm.Neg {
					continue
				}
				// lim < in
				sameLim := cm.XV == lim
				if k1, ok1 := core.ConstInt(cm.XV); ok1 {
					if k2, ok2 := core.ConstInt(lim); ok2 && k1 == k2 {
						sameLim = true
					}
				}
				if sameLim && cm.YV == in {
					return in, lim, true
				}
			}
		}
	}
	return nil, nil, false
}

// handshakeCallsIn: the calls in fn that perform a TLS handshake and yield its error: (*tls.Conn).HandshakeContext
// itself, or a helper of the package whose every return is the error of a HandshakeContext on its own parameter.
func handshakeCallsIn(fn *ssa.Function) []ssa.CallInstruction {
	var out []ssa.CallInstruction
	for _, call := range core.Calls(fn) {
		if strings.HasSuffix(core.CallName(call), "tls.Conn).HandshakeContext") {
			out = append(out, call)
			continue
		}
		h := core.StaticCallee(call)
		if h == nil || h.Pkg != fn.Pkg || h.Blocks == nil || h.Signature.Results().Len() != 1 {
			continue
		}
		var inner ssa.CallInstruction
		for _, hc := range core.Calls(h) {
			if strings.HasSuffix(core.CallName(hc), "tls.Conn).HandshakeContext") {
				if _, isPar := core.Strip(hc.Common().Args[0]).(*ssa.Parameter); isPar {
					inner = hc
				}
			}
		}
		if inner == nil {
			continue
		}
		all := len(returnsOf(h)) > 0
		for _, ret := range returnsOf(h) {
			for _, o := range core.Origins(core.ReturnResults(ret)[0], core.OriginOpts{}) {
				if o != inner.(ssa.Value) {
					all = false
				}
			}
		}
		if all {
			out = append(out, call)
		}
	}
	return out
}
