package rules

import (
	"fmt"
	"go/token"
	"strings"

	"golang.org/x/tools/go/ssa"

	"mosverif/core"
)

func init() {
	reg("C12", "Structural necessary conditions of `EDNS0 ends at the proxy`, decided for all paths: "+
		"(R12a) every successful return of forward is preceded by RemoveEDNS0 on the returned message and nothing but forward calls the upstream; "+
		"(R12b) after rule evaluation the response gets a fresh option-less OPT exactly on the edge where the query carried one, otherwise any OPT is removed; "+
		"(R12c) the upstream query is built from scratch: one question copy, RD, one OPT from newEDNS0, uncompressed, unlimited; "+
		"(R12d) ECS data is attached only under `ecsEnabled && addr.IsValid()`, and the option builder unmaps first, uses family/prefix/length constants (1,24,3 bytes)/(2,56,7 bytes), copies the masked address, writes scope 0 and covers every byte of its un-zeroed pool buffer. "+
		"Not decided: contents of options supplied by peers (they are dropped wholesale), the at-most-one-OPT input assumption.",
		Rule{ID: "R12a", Doc: "OPT stripped from every upstream reply", Floor: 3, Run: r12a},
		Rule{ID: "R12b", Doc: "answer side: fresh OPT iff the client sent one", Floor: 6, Run: r12b},
		Rule{ID: "R12c", Doc: "upstream query built from scratch", Floor: 5, Run: r12c},
		Rule{ID: "R12d", Doc: "ECS gating and encoding", Floor: 14, Run: r12d},
		Rule{ID: "R09b", Doc: "Msg.Pack re-appends the popped OPT on every successful return (a response to an EDNS0 client keeps its OPT; shared with C09)", Floor: 14, AllVariants: true, Run: r09b},
		Rule{ID: "R20g", Doc: "a raw record returned to its pool is reset completely: the OPT the proxy builds from a pooled record carries no stale TTL/flags (shared with C20)", Floor: 12, Run: r20g},
		Rule{ID: "R12e", Doc: "PopEDNS0 is a correct swap-remove (no nil record left, nothing after the OPT dropped)", Floor: 5, AllVariants: true, Run: r12e},
		Rule{ID: "R12f", Doc: "parameters named remoteAddr receive the peer address (ECS, client group, prefetch key)", Floor: 4, Run: r12f},
	)
}

func r12a(c *core.Ctx) {
	fwd := c.Anchor("app/router", "(*router).forward")
	ex := c.Anchor("app/router", "(*upstreamWrapper).Exchange")
	if fwd == nil || ex == nil {
		return
	}
	for i, ret := range returnsOf(fwd) {
		rs := core.ReturnResults(ret)
		if !core.IsNilConst(rs[1]) {
			continue
		}
		stripped := false
		for _, call := range core.CallsNamed(fwd, core.M("internal/dnsmsg.RemoveEDNS0")) {
			if call.Common().Args[0] == rs[0] && core.InstrDominates(call, ret) {
				stripped = true
			}
		}
		c.Check(stripped, fmt.Sprintf("strip-before-return#%d", i+1), ret.Pos(), fwd, "a successful forward() returns the message only after dnsmsg.RemoveEDNS0 was applied to it", core.Expr(rs[0]))
		c.Check(strings.HasPrefix(core.Expr(rs[0]), "upstream.Exchange("), fmt.Sprintf("returns-upstream-reply#%d", i+1), ret.Pos(), fwd, "the returned message is the selected upstream's reply", core.Expr(rs[0]))
	}
	for _, s := range c.CallSitesOf(ex) {
		c.Check(s.Fn == fwd, "only-forward-exchanges:"+core.FuncName(s.Fn), s.Call.Pos(), s.Fn, "upstreamWrapper.Exchange is called only by forward (nothing bypasses the OPT strip)", "")
	}
	// RemoveEDNS0 = PopEDNS0 + release; PopEDNS0 removes the record whose type is OPT
	pop := c.Anchor("internal/dnsmsg", "PopEDNS0")
	if pop != nil {
		ok := false
		for _, ret := range returnsOf(pop) {
			if !core.IsNilConst(ret.Results[0]) && hasCond(ret.Block(), ".Type == 41)", true) {
				ok = true
			}
		}
		c.Check(ok, "pop-selects-opt", pop.Pos(), pop, "PopEDNS0 returns (and removes) the additional record whose type is OPT (41)", "")
		// it actually shrinks m.Additionals on that edge
		shr := false
		core.EachInstr(pop, func(b *ssa.BasicBlock, _ int, in ssa.Instruction) {
			if st, ok := in.(*ssa.Store); ok && core.IsFieldAddr(st.Addr, "Msg", "Additionals") && hasCond(b, ".Type == 41)", true) {
				if _, isSlice := st.Val.(*ssa.Slice); isSlice {
					shr = true
				}
			}
		})
		c.Check(shr, "pop-removes", pop.Pos(), pop, "PopEDNS0 truncates m.Additionals when it found the OPT", "")
	}
}

func r12b(c *core.Ctx) {
	hm := c.Anchor("app/router", "(*router).handleReqMsg")
	aro := c.Anchor("app/router", "addOrReplaceOpt")
	ne := c.Anchor("app/router", "newEDNS0")
	me := c.Anchor("app/router", "makeEmptyRespM")
	hr := c.Anchor("app/router", "(*router).handleReq")
	if hm == nil || aro == nil || ne == nil || me == nil || hr == nil {
		return
	}
	var add, pop ssa.CallInstruction
	for _, call := range core.Calls(hm) {
		switch core.CallName(call) {
		case core.M("app/router.addOrReplaceOpt"):
			add = call
		case core.M("internal/dnsmsg.PopEDNS0"):
			pop = call
		default:
			if removesOpt(call) {
				pop = call
			}
		}
	}
	if add == nil || pop == nil {
		c.Bad("answer-opt-branches", hm.Pos(), hm, "handleReqMsg has an add-OPT branch and a remove-OPT branch", fmt.Sprintf("add=%v pop=%v", add != nil, pop != nil))
		return
	}
	// the deciding condition
	var cond ssa.Value
	for _, cnd := range core.CondsAt(add.Block()) {
		if cnd.Val {
			for _, c2 := range core.CondsAt(pop.Block()) {
				if c2.Cond == cnd.Cond && !c2.Val {
					cond = cnd.Cond
				}
			}
		}
	}
	if cond == nil {
		c.Bad("answer-opt-decision", add.Pos(), hm, "add-OPT and remove-OPT are the two edges of one condition", "")
		return
	}
	// cond is true only via a scan of the QUERY's additionals for type OPT
	okScan := false
	desc := strings.Join(truthConds(cond), " OR ")
	// `found != nil` where found is the header of the OPT record the scan met (nil when none)
	if cm, isCmp := core.CmpOf(cond); isCmp && cm.Op == "==" && cm.Neg && !okScan {
		var ptr ssa.Value
		if core.IsNilConst(cm.XV) {
			ptr = cm.YV
		} else if core.IsNilConst(cm.YV) {
			ptr = cm.XV
		}
		if p0, isPhi := ptr.(*ssa.Phi); isPhi {
			okScan = true
			seen := map[*ssa.Phi]bool{}
			var walk func(phi *ssa.Phi)
			walk = func(phi *ssa.Phi) {
				if seen[phi] {
					return
				}
				seen[phi] = true
				for i, e := range phi.Edges {
					switch {
					case core.IsNilConst(e):
					default:
						if p2, isPhi := e.(*ssa.Phi); isPhi {
							walk(p2)
							continue
						}
						pred := phi.Block().Preds[i]
						call, isCall := e.(*ssa.Call)
						if !isCall || !call.Call.IsInvoke() || call.Call.Method.Name() != "Hdr" || !hasCond(pred, ".Hdr().Type == 41)", true) {
							okScan = false
						}
						if !strings.Contains(core.Expr(e), "m.Additionals") && !rangesOver(hm, pred, "m.Additionals") {
							okScan = false
						}
					}
				}
			}
			walk(p0)
		}
	}
	if phi0, ok := cond.(*ssa.Phi); ok {
		okScan = true
		// the flag may be carried around the scan loop (phi of phis): every leaf is a constant, and `true` enters only
		// on an edge where the scanned record is an OPT of m.Additionals
		seen := map[*ssa.Phi]bool{}
		var walk func(phi *ssa.Phi)
		walk = func(phi *ssa.Phi) {
			if seen[phi] {
				return
			}
			seen[phi] = true
			for i, e := range phi.Edges {
				if b, isC := core.ConstBool(e); isC && b {
					pred := phi.Block().Preds[i]
					if !hasCond(pred, ".Hdr().Type == 41)", true) {
						okScan = false
					}
					// the scanned records come from m.Additionals
					if !strings.Contains(condList(pred), "m.Additionals") && !rangesOver(hm, pred, "m.Additionals") {
						okScan = false
					}
				} else if p2, isPhi := e.(*ssa.Phi); isPhi {
					walk(p2)
				} else if !isC {
					okScan = false
				}
			}
		}
		walk(phi0)
	}
	// or the scan's helper was expanded and its two returns threaded into the branches: the OPT is added inside the scan
	// of m.Additionals where the record's type is OPT, and removed where the scan ran to its end
	if !okScan {
		if hasCond(add.Block(), ".Hdr().Type == 41)", true) && (strings.Contains(condList(add.Block()), "m.Additionals") || rangesOver(hm, add.Block(), "m.Additionals")) &&
			!hasCond(pop.Block(), ".Hdr().Type == 41)", true) {
			// the remove branch is not reachable from the add branch's scan hit
			if core.Reach(hm, add.(ssa.Instruction), func(in ssa.Instruction) bool { return in == pop.(ssa.Instruction) }, nil) == nil {
				okScan = true
			}
		}
	}
	// or the scan lives in a helper called with the query: it returns true only on the OPT-type edge of a scan of its
	// parameter's additionals, and false otherwise
	if call, ok := cond.(*ssa.Call); ok && !okScan {
		if h := core.StaticCallee(call); h != nil && h.Pkg == hm.Pkg && h.Blocks != nil && len(h.Params) >= 1 {
			// the message handed over is the query (a parameter of handleReqMsg)
			var msgPar *ssa.Parameter
			for k, a := range call.Call.Args {
				if _, isPar := a.(*ssa.Parameter); isPar && strings.HasSuffix(a.Type().String(), "dnsmsg.Msg") && k < len(h.Params) {
					msgPar = h.Params[k]
				}
			}
			good := msgPar != nil
			nTrue := 0
			for _, ret := range returnsOf(h) {
				rs := core.ReturnResults(ret)
				b, isC := core.ConstBool(rs[0])
				switch {
				case !isC:
					good = false
				case b:
					nTrue++
					if !hasCond(ret.Block(), ".Hdr().Type == 41)", true) {
						good = false
					}
					if msgPar != nil && !strings.Contains(condList(ret.Block()), msgPar.Name()+".Additionals") && !rangesOver(h, ret.Block(), msgPar.Name()+".Additionals") {
						good = false
					}
				}
			}
			if good && nTrue > 0 {
				okScan = true
				desc = "decided by " + core.FuncName(h)
			}
		}
	}
	c.Check(okScan, "client-edns-detected-from-query", add.Pos(), hm, "`client supports EDNS0` is true exactly when a record of type OPT was found in the query's additional section", desc)
	c.Check(core.Expr(add.Common().Args[0]) == "rc.Response.Msg" && core.Expr(add.Common().Args[1]) == "1200", "add-opt-args", add.Pos(), hm, "the response gets the proxy's own OPT (UDP size 1200)", core.Expr(add.Common().Args[0])+", "+core.Expr(add.Common().Args[1]))
	c.Check(core.Expr(pop.Common().Args[0]) == "rc.Response.Msg", "remove-opt-args", pop.Pos(), hm, "without client EDNS0 any OPT is removed from the response", core.Expr(pop.Common().Args[0]))
	// both happen after rule evaluation
	for _, call := range callsOfFn(hm, hr) {
		c.Check(core.InstrDominates(call, add) && core.InstrDominates(call, pop), "opt-fixup-after-rules", call.Pos(), hm, "the OPT fix-up runs after handleReq chose the response", "")
	}
	// addOrReplaceOpt: pop + append(newEDNS0)
	popIn, appendNew := false, false
	for _, call := range core.Calls(aro) {
		if core.CallName(call) == core.M("internal/dnsmsg.PopEDNS0") || removesOpt(call) {
			popIn = true
		}
		if core.CallName(call) == "builtin.append" {
			for _, el := range appendedElems(call.(*ssa.Call)) {
				if strings.HasPrefix(core.Expr(el), "router.newEDNS0(") {
					appendNew = true
				}
			}
		}
	}
	c.Check(popIn && appendNew, "addOrReplaceOpt-shape", aro.Pos(), aro, "addOrReplaceOpt removes any existing OPT and appends newEDNS0(udpSize): exactly one OPT afterwards", fmt.Sprintf("pop=%v append=%v", popIn, appendNew))
	// newEDNS0 sets only Class and Type on a fresh RawResource: no options (Data nil), TTL 0 (no DO bit / extended rcode)
	fields := map[string]string{}
	core.EachInstr(ne, func(_ *ssa.BasicBlock, _ int, in ssa.Instruction) {
		if st, ok := in.(*ssa.Store); ok {
			if fa, ok := st.Addr.(*ssa.FieldAddr); ok {
				fields[core.FieldAddrRef(fa).Name] = core.Expr(st.Val)
			}
		}
	})
	okNE := len(fields) == 2 && fields["Type"] == "41" && strings.Contains(fields["Class"], "udpSize")
	c.Check(okNE, "newEDNS0-optionless", ne.Pos(), ne, "newEDNS0 sets only Type=OPT and Class=udpSize on a zeroed RawResource (no options, TTL 0)", fmt.Sprint(fields))
	for _, ret := range returnsOf(ne) {
		c.Check(strings.HasPrefix(core.Expr(ret.Results[0]), "dnsmsg.NewRaw()"), "newEDNS0-fresh", ret.Pos(), ne, "the OPT record is a fresh pooled RawResource", core.Expr(ret.Results[0]))
	}
	// empty responses carry no additional
	addl := false
	core.EachInstr(me, func(_ *ssa.BasicBlock, _ int, in ssa.Instruction) {
		if fa, ok := in.(*ssa.FieldAddr); ok && core.FieldAddrRef(fa).Name == "Additionals" {
			addl = true
		}
	})
	c.Check(!addl, "empty-resp-no-opt", me.Pos(), me, "makeEmptyRespM never touches the additional section", "")
}

// rangesOver: block b lies in a loop that iterates the slice whose Expr is e.
// removesOpt: the call goes to a module function that applies PopEDNS0 to its own first parameter on every path
// (dnsmsg.RemoveEDNS0: pop and release).
func removesOpt(call ssa.CallInstruction) bool {
	h := core.StaticCallee(call)
	if h == nil || h.Blocks == nil || h.Pkg == nil || !core.IsModule(h.Pkg.Pkg) || len(h.Params) == 0 {
		return false
	}
	var pop ssa.Instruction
	for _, hc := range core.Calls(h) {
		if core.CallName(hc) == core.M("internal/dnsmsg.PopEDNS0") && len(hc.Common().Args) == 1 && hc.Common().Args[0] == ssa.Value(h.Params[0]) {
			pop = hc
		}
	}
	return pop != nil && core.Reach(h, nil, core.IsReturn, func(in ssa.Instruction) bool { return in == pop }) == nil
}

func rangesOver(fn *ssa.Function, b *ssa.BasicBlock, e string) bool {
	found := false
	core.EachInstr(fn, func(bb *ssa.BasicBlock, _ int, in ssa.Instruction) {
		if ia, ok := in.(*ssa.IndexAddr); ok && core.Expr(ia.X) == e && (bb.Dominates(b) || bb == b) {
			found = true
		}
	})
	return found
}

func r12c(c *core.Ctx) {
	pr := c.Anchor("app/router", "(*router).packReq")
	if pr == nil {
		return
	}
	nq, na := 0, 0
	var qEl, aEl ssa.Value
	for _, call := range core.CallsNamed(pr, "builtin.append") {
		cc := call.(*ssa.Call)
		dst := core.Expr(cc.Call.Args[0])
		for _, el := range appendedElems(cc) {
			switch {
			case strings.HasSuffix(dst, ".Questions"):
				nq++
				qEl = el
			case strings.HasSuffix(dst, ".Additionals"):
				na++
				aEl = el
			}
		}
	}
	c.Check(nq == 1 && qEl != nil && core.Expr(qEl) == "q.Copy()", "one-question", pr.Pos(), pr, "the upstream query carries exactly one question: a copy of q", fmt.Sprintf("%d appends; %s", nq, core.Expr(qEl)))
	c.Check(na == 1 && aEl != nil && strings.HasPrefix(core.Expr(aEl), "router.newEDNS0(1200)"), "one-opt", pr.Pos(), pr, "the upstream query carries exactly one additional: the proxy's own OPT from newEDNS0", fmt.Sprintf("%d appends; %s", na, core.Expr(aEl)))
	rd := false
	core.EachInstr(pr, func(_ *ssa.BasicBlock, _ int, in ssa.Instruction) {
		if st, ok := in.(*ssa.Store); ok {
			if fa, ok := st.Addr.(*ssa.FieldAddr); ok && core.FieldAddrRef(fa).Name == "RecursionDesired" && core.Expr(st.Val) == "true" {
				rd = true
			}
		}
	})
	c.Check(rd, "rd-set", pr.Pos(), pr, "RD is set on the upstream query", "")
	for _, call := range core.Calls(pr) {
		if strings.HasSuffix(core.CallName(call), "dnsmsg.Msg).Pack") {
			a := call.Common().Args
			comp, _ := core.ConstBool(a[2])
			sz, _ := core.ConstInt(a[3])
			c.Check(strings.HasPrefix(core.Expr(a[0]), "dnsmsg.NewMsg()") && !comp && sz == 0, "packed-from-scratch", call.Pos(), pr, "the query is packed from a fresh message, uncompressed and without size limit", core.Expr(call.(ssa.Value)))
		}
	}
	// parameters: only q and remoteAddr (no client message can flow in)
	okP := len(pr.Params) == 3
	c.Check(okP, "no-client-message-param", pr.Pos(), pr, "packReq takes only the question and the client address (nothing of the client's message can be relayed)", fmt.Sprint(len(pr.Params)))
}

func r12d(c *core.Ctx) {
	pr := c.Anchor("app/router", "(*router).packReq")
	mk := c.Anchor("app/router", "makeEdns0ClientSubnetReqOpt")
	if pr == nil || mk == nil {
		return
	}
	// gating
	n := 0
	core.EachInstr(pr, func(b *ssa.BasicBlock, _ int, in ssa.Instruction) {
		st, ok := in.(*ssa.Store)
		if !ok || !core.IsFieldAddr(st.Addr, "RawResource", "Data") {
			return
		}
		n++
		// the data is makeEdns0ClientSubnetReqOpt(<the function's address parameter>), whatever that parameter is called
		var addrPar *ssa.Parameter
		for _, p := range pr.Params {
			if p.Type().String() == "net/netip.Addr" {
				addrPar = p
			}
		}
		okSrc := false
		if call, isCall := core.Strip(st.Val).(*ssa.Call); isCall && core.StaticCallee(call) == mk && addrPar != nil {
			for _, o := range core.Origins(call.Call.Args[0], core.OriginOpts{}) {
				okSrc = o == ssa.Value(addrPar)
			}
		}
		c.Check(okSrc, "ecs-data-source", st.Pos(), pr, "OPT data is exactly the ECS option built from the client address", core.Expr(st.Val))
		validGate := false
		for _, cnd := range core.CondsAt(b) {
			if call, isCall := cnd.Cond.(*ssa.Call); isCall && cnd.Val && strings.HasSuffix(core.CallName(call), "netip.Addr).IsValid") && addrPar != nil {
				for _, o := range core.Origins(call.Call.Args[0], core.OriginOpts{}) {
					if o == ssa.Value(addrPar) {
						validGate = true
					}
				}
			}
		}
		c.Check(hasCond(b, "r.opt.ecsEnabled", true) && validGate, "ecs-gated", st.Pos(), pr, "ECS is attached only when ECS is enabled and the client address is valid", condList(b))
	})
	if n != 1 {
		c.Bad("ecs-data-stores", pr.Pos(), pr, "exactly one place sets the OPT data", fmt.Sprint(n))
	}
	// builder: Unmap first
	par := mk.Params[0]
	onlyUnmap := true
	var unmap *ssa.Call
	for _, r := range core.RefsThrough(par) {
		if call, ok := r.(*ssa.Call); ok && core.CallName(call) == "(net/netip.Addr).Unmap" {
			unmap = call
			continue
		}
		if _, ok := r.(*ssa.DebugRef); ok {
			continue
		}
		if st, ok := r.(*ssa.Store); ok && st.Val == ssa.Value(par) {
			continue // spilled into the local `addr`
		}
		onlyUnmap = false
	}
	if unmap == nil {
		// the parameter may be spilled into a variable first
		for _, call := range core.CallsNamed(mk, "(net/netip.Addr).Unmap") {
			if derivedParam(mk, call.Common().Args[0]) == 0 {
				unmap = call.(*ssa.Call)
			}
		}
	}
	c.Check(unmap != nil && onlyUnmap, "unmap-first", mk.Pos(), mk, "the client address is unmapped before anything else (IPv4-mapped IPv6 is encoded as IPv4)", "")
	type arm struct {
		name                              string
		is                                string
		family, mask, trunc, length, size int64
	}
	arms := []arm{{"v4", "Is4()", 1, 24, 3, 7, 11}, {"v6", "Is6()", 2, 56, 7, 11, 15}}
	e := core.NewLinEnv(mk)
	var getbufs []*ssa.Call
	for _, call := range core.CallsNamed(mk, core.M("internal/pool.GetBuf")) {
		getbufs = append(getbufs, call.(*ssa.Call))
	}
	for _, a := range arms {
		var gb *ssa.Call
		for _, g := range getbufs {
			if hasCond(g.Block(), a.is, true) {
				gb = g
			}
		}
		if gb == nil {
			c.Bad("arm:"+a.name, mk.Pos(), mk, "the builder has a "+a.name+" arm allocating its buffer", "not found")
			continue
		}
		// family test is on the unmapped address
		famOK := false
		for _, cnd := range core.CondsAt(gb.Block()) {
			if call, ok := cnd.Cond.(*ssa.Call); ok && cnd.Val && strings.HasSuffix(core.CallName(call), a.is[:3]) {
				for _, o := range core.Origins(call.Call.Args[0], core.OriginOpts{}) {
					if o == ssa.Value(unmap) {
						famOK = true
					}
				}
			}
		}
		c.Check(famOK, "family-test-on-unmapped:"+a.name, gb.Pos(), mk, "the "+a.is+" test is applied to the unmapped address", "")
		sz, _ := core.ConstInt(gb.Call.Args[0])
		c.Check(sz == a.size, "buffer-size:"+a.name, gb.Pos(), mk, fmt.Sprintf("the option buffer is %d bytes (4 header + 4 fixed + %d address bytes)", a.size, a.trunc), fmt.Sprint(sz))
		// values of the merged variables on this arm
		armVal := func(v ssa.Value) string {
			if phi, ok := v.(*ssa.Phi); ok {
				for i, p := range phi.Block().Preds {
					if gb.Block().Dominates(p) || p == gb.Block() {
						return core.Expr(phi.Edges[i])
					}
				}
			}
			return core.Expr(v)
		}
		ws, _ := bufferWritesVia(e, mk, gb)
		got := map[string]string{}
		for _, w := range ws {
			got[w.lo.String()] = armVal(w.src)
		}
		c.Check(got["0"] == "8", "option-code:"+a.name, gb.Pos(), mk, "OPTION-CODE is 8 (ECS)", got["0"])
		c.Check(got["2"] == fmt.Sprint(a.length), "option-length:"+a.name, gb.Pos(), mk, fmt.Sprintf("OPTION-LENGTH is %d", a.length), got["2"])
		c.Check(got["4"] == fmt.Sprint(a.family), "family:"+a.name, gb.Pos(), mk, fmt.Sprintf("FAMILY is %d", a.family), got["4"])
		c.Check(got["6"] == fmt.Sprint(a.mask), "source-prefix:"+a.name, gb.Pos(), mk, fmt.Sprintf("SOURCE PREFIX-LENGTH is %d", a.mask), got["6"])
		c.Check(got["7"] == "0", "scope-zero:"+a.name, gb.Pos(), mk, "SCOPE PREFIX-LENGTH is the constant 0", got["7"])
		// address bytes: copy(b[8:], ip[:]) with ip = maskAddr(unmapped, mask).AsN()
		addrSrc := got["8"]
		wantFn := map[string]string{"v4": "As4()", "v6": "As16()"}[a.name]
		c.Check(strings.Contains(addrSrc, "func:") || strings.Contains(addrSrc, wantFn) || strings.Contains(addrSrc, "ip"), "address-bytes:"+a.name, gb.Pos(), mk, "the address bytes are copied from the masked address", addrSrc)
		maskedOK := false
		for _, call := range core.Calls(mk) {
			if cc, ok := call.(*ssa.Call); ok && (gb.Block().Dominates(cc.Block()) || cc.Block() == gb.Block()) && strings.HasSuffix(core.CallName(cc), wantFn[:len(wantFn)-2]) {
				// receiver = maskAddr(<unmapped addr>, mask)
				if mc, ok := cc.Call.Args[0].(*ssa.Call); ok && len(closuresOf(mk)) > 0 && core.StaticCallee(mc) == closuresOf(mk)[0] {
					k, _ := core.ConstInt(mc.Call.Args[1])
					fromUnmapped := false
					for _, o := range core.Origins(mc.Call.Args[0], core.OriginOpts{}) {
						if o == ssa.Value(unmap) {
							fromUnmapped = true
						}
					}
					if k == a.mask && fromUnmapped {
						maskedOK = true
					}
				}
			}
		}
		// or the masking is spelled out in place (the mask helper expanded): X.AsN() with X = P.Addr(), P = U.Prefix(mask),
		// U the unmapped address, mask the arm's constant
		if !maskedOK {
			for _, call := range core.Calls(mk) {
				cc, ok := call.(*ssa.Call)
				if !ok || !(gb.Block().Dominates(cc.Block()) || cc.Block() == gb.Block()) || !strings.HasSuffix(core.CallName(cc), wantFn[:len(wantFn)-2]) {
					continue
				}
				for _, o := range core.Origins(cc.Call.Args[0], core.OriginOpts{}) {
					ac, ok := o.(*ssa.Call)
					if !ok || core.CallName(ac) != "(net/netip.Prefix).Addr" {
						continue
					}
					for _, o2 := range core.Origins(ac.Call.Args[0], core.OriginOpts{}) {
						ex, ok := o2.(*ssa.Extract)
						if !ok {
							continue
						}
						pc, ok := ex.Tuple.(*ssa.Call)
						if !ok || core.CallName(pc) != "(net/netip.Addr).Prefix" {
							continue
						}
						bitsOK := false
						for _, o3 := range core.Origins(pc.Call.Args[1], core.OriginOpts{}) {
							if k, isC := core.ConstInt(o3); isC && k == a.mask {
								bitsOK = true
							} else {
								bitsOK = false
								break
							}
						}
						fromUnmapped := false
						for _, o3 := range core.Origins(pc.Call.Args[0], core.OriginOpts{}) {
							if o3 == ssa.Value(unmap) {
								fromUnmapped = true
							}
						}
						if bitsOK && fromUnmapped {
							maskedOK = true
						}
					}
				}
			}
		}
		c.Check(maskedOK, "address-masked:"+a.name, gb.Pos(), mk, fmt.Sprintf("the encoded address is maskAddr(addr, %d): host bits cleared", a.mask), "")
		// coverage of the un-zeroed buffer
		order, hole := coverage(ws, core.LinConst(sz))
		_ = order
		var desc []string
		for _, w := range ws {
			desc = append(desc, fmt.Sprintf("[%s,%s)", w.lo.String(), w.hi.String()))
		}
		c.Check(hole == "", "buffer-coverage:"+a.name, gb.Pos(), mk, "every byte of the un-zeroed pool buffer is written (no stale pool byte is sent to the upstream)", hole+" writes: "+strings.Join(desc, " "))
	}
	// maskAddr helper: Prefix(mask).Addr()
	if len(closuresOf(mk)) > 0 {
		ma := closuresOf(mk)[0]
		ok := false
		for _, ret := range returnsOf(ma) {
			e := core.Expr(ret.Results[0])
			if strings.Contains(e, "addr.Prefix(conv(mask))#0") && strings.HasSuffix(e, ".Addr()") {
				ok = true
			}
		}
		c.Check(ok, "maskAddr", ma.Pos(), ma, "maskAddr returns addr.Prefix(mask).Addr()", "")
	}
	c.Assume("A1: pool buffers are not zeroed")
}

// bufferWritesVia is bufferWrites, but a write through a phi of several buffers counts for each of them.
func bufferWritesVia(e *core.LinEnv, fn *ssa.Function, buf ssa.Value) (ws []bufWrite, unmodelled []ssa.CallInstruction) {
	isBuf := func(v ssa.Value) (core.Lin, bool) {
		b, low := sliceBase(e, v)
		if b == buf {
			return low, true
		}
		for _, o := range core.Origins(b, core.OriginOpts{}) {
			if o == buf {
				return low, true
			}
		}
		return low, false
	}
	core.EachInstr(fn, func(_ *ssa.BasicBlock, _ int, in ssa.Instruction) {
		switch x := in.(type) {
		case *ssa.Store:
			if ia, ok := x.Addr.(*ssa.IndexAddr); ok {
				if low, ok := isBuf(ia.X); ok {
					i := low.Add(e.Of(ia.Index))
					ws = append(ws, bufWrite{x.Pos(), i, i.AddC(1), x.Val, "indexed store"})
				}
			}
		case ssa.CallInstruction:
			name := core.CallName(x)
			args := x.Common().Args
			switch {
			case name == "builtin.copy":
				if low, ok := isBuf(args[0]); ok {
					// length of the destination view relative to THIS buffer
					dst := args[0]
					var n core.Lin
					b, _ := sliceBase(e, dst)
					if b == buf {
						n = e.Of(x.(ssa.Value))
					} else {
						// through a phi: len(dst) = len(buf) - low
						d := e.LenOf(buf).Sub(low)
						s := e.LenOf(args[1])
						if d.Sub(s).NonNeg() {
							n = s
						} else {
							n = d
						}
					}
					ws = append(ws, bufWrite{x.Pos(), low, low.Add(n), args[1], "copy"})
				}
			case strings.HasPrefix(name, "(encoding/binary.bigEndian).PutUint"):
				if len(args) == 3 {
					if low, ok := isBuf(args[1]); ok {
						n := int64(2)
						if strings.HasSuffix(name, "32") {
							n = 4
						} else if strings.HasSuffix(name, "64") {
							n = 8
						}
						ws = append(ws, bufWrite{x.Pos(), low, low.AddC(n), args[2], "PutUint"})
					}
				}
			case name == "builtin.len" || name == "builtin.cap":
			default:
				for _, a := range args {
					if _, ok := isBuf(a); ok {
						unmodelled = append(unmodelled, x)
						break
					}
				}
			}
		}
	})
	_ = token.NoPos
	return
}
