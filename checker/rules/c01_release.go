package rules

import (
	"fmt"
	"go/token"
	"go/types"
	"strings"

	"golang.org/x/tools/go/ssa"

	"mosverif/core"
)

// R01c — precondition of bytespool.Release (A1): the buffer is non-nil and its capacity is a pool
// size class. A violation is a process-killing panic reachable from network input (C01) and files a
// foreign array into the pool (C20).
//
// R20e — a struct that was copied by value into an object that now owns its buffers must not have its
// fields released again (double release => two owners of one array).

var bufReleaseFns = map[string]int{
	"github.com/IrineSistiana/bytespool.Release": 0,
}

func init() {
	bufReleaseFns[core.M("internal/pool.ReleaseBuf")] = 0
	bufReleaseFns[core.M("internal/dnsmsg.ReleaseName")] = 0
}

// poolBorn describes how a buffer value came to be.
type bornInfo struct {
	ok       bool     // every origin is a pool allocation reached through capacity-preserving steps
	maybeNil bool     // some origin may be nil
	why      []string // description of origins / problems
}

// nonNilBufFns: functions returning a pool buffer that is never nil (result index 0), computed
// summaries are approximated by this table of constructors plus "returns (buf, error)" contracts.
func isPoolCtor(n string) bool {
	switch n {
	case core.M("internal/pool.GetBuf"), "github.com/IrineSistiana/bytespool.Get", core.M("internal/pool.CopyBuf"),
		core.M("internal/dnsmsg.copyBuf"), core.M("internal/upstream/transport.copyMsg"):
		return true
	}
	return false
}

// bufSummary: module functions whose result #0 is a pool-born buffer: always (never nil) or on err==nil.
type bufFnSummary struct {
	born     bool
	nilOnErr bool // result may be nil exactly when the error result is non-nil
	neverNil bool
}

func bufFnSummaries(c *core.Ctx) map[*ssa.Function]*bufFnSummary {
	sum := map[*ssa.Function]*bufFnSummary{}
	isBuf := func(t types.Type) bool {
		s := core.TypeName(t)
		return strings.HasSuffix(s, "pool.Buffer") || strings.HasSuffix(s, "dnsmsg.Name") || s == "[]byte" || s == "[]uint8"
	}
	changed := true
	for iter := 0; changed && iter < 6; iter++ {
		changed = false
		for _, fn := range c.SrcFuncs() {
			if fn.Parent() != nil || fn.Signature.Results().Len() == 0 || !isBuf(fn.Signature.Results().At(0).Type()) {
				continue
			}
			hasErr := fn.Signature.Results().Len() >= 2 && fn.Signature.Results().At(fn.Signature.Results().Len()-1).Type().String() == "error"
			born, neverNil, nilOnErr := true, true, true
			n := 0
			for _, ret := range returnsOf(fn) {
				rs := core.ReturnResults(ret)
				n++
				// `return g(…)`: both results of one call are passed on — g's summary is inherited
				if ex0, ok := rs[0].(*ssa.Extract); ok && hasErr && ex0.Index == 0 {
					if exE, ok := rs[len(rs)-1].(*ssa.Extract); ok && exE.Tuple == ex0.Tuple {
						if gc, ok := ex0.Tuple.(*ssa.Call); ok {
							if g := core.StaticCallee(gc); g != nil && sum[g] != nil && sum[g].born {
								if !sum[g].neverNil {
									neverNil = false
									if !sum[g].nilOnErr {
										nilOnErr = false
									}
								}
								continue
							}
						}
					}
				}
				bi := bornOf(c, fn, rs[0], ret.Block(), sum, 0)
				if core.IsNilConst(rs[0]) {
					neverNil = false
					if !hasErr || core.IsNilConst(rs[len(rs)-1]) {
						nilOnErr = false
					}
					continue
				}
				if !bi.ok {
					born = false
				}
				if bi.maybeNil {
					neverNil = false
					nilOnErr = false
				}
			}
			if n == 0 || !born {
				continue
			}
			s := &bufFnSummary{born: true, neverNil: neverNil, nilOnErr: !neverNil && nilOnErr}
			if old := sum[fn]; old == nil || *old != *s {
				sum[fn] = s
				changed = true
			}
		}
	}
	return sum
}

// appendBounds: functions in which a pool buffer grows by append and is later released: the initial
// capacity must be at least minCap (reviewed arithmetic argument).
var appendBounds = map[string]struct {
	minCap int64
	reason string
}{
	"internal/dnsmsg.ToReadable": {1016, "NameScanner rejects names longer than 254 octets; every data octet renders to at most 4 bytes (\\DDD) and every length octet to one '.', so the readable form is < 4*254 = 1016 bytes and append never reallocates"},
}

func bornOf(c *core.Ctx, fn *ssa.Function, v ssa.Value, at *ssa.BasicBlock, sum map[*ssa.Function]*bufFnSummary, depth int) bornInfo {
	res := bornInfo{ok: true}
	if depth > 6 {
		return bornInfo{ok: false, why: []string{"depth limit"}}
	}
	seen := map[ssa.Value]bool{}
	var walk func(v ssa.Value)
	walk = func(v ssa.Value) {
		if v == nil || seen[v] {
			return
		}
		seen[v] = true
		switch x := v.(type) {
		case *ssa.Const:
			if x.IsNil() {
				res.maybeNil = true
				res.why = append(res.why, "nil")
				return
			}
			res.ok = false
			res.why = append(res.why, "constant "+x.String())
		case *ssa.ChangeType:
			walk(x.X)
		case *ssa.Convert:
			walk(x.X)
		case *ssa.Phi:
			for _, e := range x.Edges {
				walk(e)
			}
		case *ssa.Slice:
			lowZero := x.Low == nil
			if k, ok := core.ConstInt(x.Low); x.Low != nil && ok && k == 0 {
				lowZero = true
			}
			if !lowZero {
				res.ok = false
				res.why = append(res.why, "re-sliced with a non-zero low bound ("+core.Expr(x)+"): capacity is no longer a pool size class")
				return
			}
			walk(x.X)
		case *ssa.Call:
			n := core.CallName(x)
			switch {
			case isPoolCtor(n):
				res.why = append(res.why, core.ModName(n))
			case n == "builtin.append":
				// growth: allowed only under a reviewed bound
				fname := core.FuncName(x.Parent())
				b, ok := appendBounds[fname]
				if !ok {
					res.ok = false
					res.why = append(res.why, "append may reallocate outside the pool (no reviewed bound for "+fname+")")
					return
				}
				// initial capacity of the base
				capOK := false
				for _, o := range core.Origins(x.Call.Args[0], core.OriginOpts{ThroughCall: func(cc *ssa.Call, _ int) []ssa.Value {
					if core.CallName(cc) == "builtin.append" || (core.StaticCallee(cc) != nil && core.StaticCallee(cc).Pkg == x.Parent().Pkg && returnsParam0(core.StaticCallee(cc))) {
						return []ssa.Value{cc.Call.Args[0]}
					}
					return nil
				}}) {
					if gc, ok := o.(*ssa.Call); ok && isPoolCtor(core.CallName(gc)) {
						if k, ok := core.ConstInt(gc.Call.Args[0]); ok {
							capOK = k >= b.minCap
							res.why = append(res.why, fmt.Sprintf("append onto GetBuf(%d) (reviewed bound: needs >= %d)", k, b.minCap))
							if !capOK {
								res.ok = false
								res.why = append(res.why, fmt.Sprintf("initial capacity %d < %d: append can reallocate with a non-pool capacity (%s)", k, b.minCap, b.reason))
							}
						}
					}
				}
				if !capOK && res.ok {
					res.ok = false
					res.why = append(res.why, "cannot establish the initial capacity of the appended buffer")
				}
			default:
				callee := core.StaticCallee(x)
				if callee != nil && sum[callee] != nil && sum[callee].born {
					res.why = append(res.why, core.FuncName(callee)+"()")
					if !sum[callee].neverNil {
						res.maybeNil = true
					}
					return
				}
				if callee != nil && returnsParam0(callee) {
					walk(x.Call.Args[0])
					return
				}
				res.ok = false
				res.why = append(res.why, "result of "+core.ModName(n)+" (not known to be pool-born)")
			}
		case *ssa.Extract:
			call, ok := x.Tuple.(*ssa.Call)
			if !ok {
				res.ok = false
				res.why = append(res.why, core.Expr(x))
				return
			}
			callee := core.StaticCallee(call)
			// a call through a local function value that is one of several module functions (`pack := packResp; if tcp
			// { pack = packRespTCP }`): every candidate must have the summary
			if callee == nil && x.Index == 0 {
				if cands := dynCallees(call); len(cands) > 0 {
					all := true
					for _, f := range cands {
						if sum[f] == nil || !sum[f].born {
							all = false
						}
					}
					if all {
						for _, f := range cands {
							res.why = append(res.why, core.FuncName(f)+"()#0")
							if !sum[f].neverNil {
								if sum[f].nilOnErr && at != nil && errOfCallNilAt(x, at) {
									continue
								}
								res.maybeNil = true
							}
						}
						return
					}
				}
			}
			if x.Index == 0 && callee != nil && sum[callee] != nil && sum[callee].born {
				res.why = append(res.why, core.FuncName(callee)+"()#0")
				if !sum[callee].neverNil {
					if sum[callee].nilOnErr && at != nil && errOfCallNilAt(x, at) {
						return
					}
					res.maybeNil = true
				}
				return
			}
			res.ok = false
			res.why = append(res.why, "result of "+core.ModName(core.CallName(call))+" (not known to be pool-born)")
		case *ssa.UnOp:
			if x.Op != token.MUL {
				res.ok = false
				return
			}
			switch a := x.X.(type) {
			case *ssa.FieldAddr:
				// a struct received from a channel: its fields are what the senders put there
				if vals, fns, ok := recvStructField(c, a); ok {
					for i, sv := range vals {
						bi := bornOf(c, fns[i], sv, nil, sum, depth+1)
						if !bi.ok {
							res.ok = false
						}
						if bi.maybeNil {
							res.maybeNil = true
						}
						res.why = append(res.why, "sent by "+core.FuncName(fns[i])+": "+strings.Join(bi.why, ", "))
					}
					return
				}
				// who-stores: every store to that field in the module must be pool-born or nil
				r := core.FieldAddrRef(a)
				if r.Struct == nil || r.Struct.Obj().Pkg() == nil || !core.IsModule(r.Struct.Obj().Pkg()) {
					res.ok = false
					res.why = append(res.why, "field "+r.String()+" of a foreign type")
					return
				}
				sts := c.FieldStores(r.Struct.Obj().Pkg().Path(), core.StructName(r.Struct), r.Name)
				res.maybeNil = true // zero value / cleared
				for _, s := range sts {
					if isZeroConst(s.Val) || core.IsNilConst(s.Val) {
						continue
					}
					bi := bornOf(c, s.Fn, s.Val, s.Store.Block(), sum, depth+1)
					if !bi.ok {
						res.ok = false
						res.why = append(res.why, "field "+r.String()+" stored at "+c.Rel(s.Store.Pos())+": "+strings.Join(bi.why, ", "))
					}
				}
				res.why = append(res.why, fmt.Sprintf("field %s (%d stores, all pool-born or nil)", r.String(), len(sts)))
			case *ssa.Alloc:
				if vals, zero, ok := core.ReachingStores(a, x); ok {
					if zero {
						res.maybeNil = true
					}
					for _, s := range vals {
						walk(s)
					}
				} else {
					res.ok = false
					res.why = append(res.why, "escaping local "+a.Comment)
				}
			case *ssa.FreeVar:
				if b := core.Binding(a); b != nil {
					if al, ok := b.(*ssa.Alloc); ok {
						for _, r := range *al.Referrers() {
							if st, ok := r.(*ssa.Store); ok && st.Addr == ssa.Value(al) {
								walk(st.Val)
							}
						}
						return
					}
				}
				res.ok = false
				res.why = append(res.why, "captured variable "+a.Name())
			case *ssa.IndexAddr:
				res.ok = false
				res.why = append(res.why, "element "+core.Expr(x))
			default:
				res.ok = false
				res.why = append(res.why, core.Expr(x))
			}
		case *ssa.Parameter:
			// parameter of a release helper or of a function whose callers are checked: follow call sites
			pfn := x.Parent()
			idx := -1
			for i, p := range pfn.Params {
				if p == x {
					idx = i
				}
			}
			sites := c.CallSitesOf(pfn)
			if idx < 0 || len(sites) == 0 {
				res.ok = false
				res.why = append(res.why, "parameter "+x.Name()+" without static call sites")
				return
			}
			for _, s := range sites {
				args := core.CallArgs(s.Call)
				if idx < len(args) {
					bi := bornOf(c, s.Fn, args[idx], s.Call.Block(), sum, depth+1)
					if !bi.ok {
						res.ok = false
						res.why = append(res.why, "caller "+core.FuncName(s.Fn)+": "+strings.Join(bi.why, ", "))
					}
					if bi.maybeNil && core.NilAt(args[idx], s.Call.Block()) != core.NonNil {
						res.maybeNil = true
					}
				}
			}
			res.why = append(res.why, fmt.Sprintf("parameter %s (%d call sites)", x.Name(), len(sites)))
		case *ssa.FreeVar:
			if b := core.Binding(x); b != nil {
				walk(b)
				return
			}
			res.ok = false
		case *ssa.Field:
			res.ok = false
			res.why = append(res.why, "struct field value "+core.Expr(x))
		default:
			res.ok = false
			res.why = append(res.why, core.Expr(v))
		}
	}
	walk(v)
	return res
}

// returnsParam0: every return of fn yields (a capacity-preserving view of) its first parameter.
func returnsParam0(fn *ssa.Function) bool {
	if fn == nil || fn.Blocks == nil || len(fn.Params) == 0 || fn.Signature.Results().Len() != 1 {
		return false
	}
	for _, ret := range returnsOf(fn) {
		for _, o := range core.Origins(ret.Results[0], core.OriginOpts{ThroughCall: func(cc *ssa.Call, _ int) []ssa.Value {
			if core.CallName(cc) == "builtin.append" {
				return []ssa.Value{cc.Call.Args[0]}
			}
			return nil
		}}) {
			if o != ssa.Value(fn.Params[0]) {
				return false
			}
		}
	}
	return true
}

func r01c(c *core.Ctx) {
	c.Assume("A1: bytespool.Release(b) panics if b == nil or cap(b) is not a pool size class; a released array may be handed to any later Get")
	sum := bufFnSummaries(c)
	var names []string
	for n := range bufReleaseFns {
		names = append(names, n)
	}
	n := 0
	for _, s := range c.CallSites(names...) {
		// the thin wrappers themselves (ReleaseBuf -> bytespool.Release(param), ReleaseName -> ReleaseBuf(param)) are
		// checked through their callers
		arg := s.Call.Common().Args[0]
		if p, ok := core.Strip(arg).(*ssa.Parameter); ok && (core.CanonName(s.Fn) == "ReleaseBuf" || core.CanonName(s.Fn) == "ReleaseName") && p.Parent() == s.Fn {
			continue
		}
		n++
		key := fmt.Sprintf("release-precondition:%s:%s", core.FuncName(s.Fn), core.Expr(arg))
		bi := bornOf(c, s.Fn, arg, s.Call.Block(), sum, 0)
		nonNil := !bi.maybeNil || core.NilAt(arg, s.Call.Block()) == core.NonNil || nonNilByAliasGuard(s.Fn, arg, s.Call.Block())
		switch {
		case !bi.ok:
			c.Bad(key, s.Call.Pos(), s.Fn, "a released buffer is pool-born and keeps its pool capacity (bytespool.Release panics otherwise)", strings.Join(dedup(bi.why), "; "))
		case !nonNil:
			c.Bad(key, s.Call.Pos(), s.Fn, "a released buffer is non-nil at the release (bytespool.Release panics on nil)", "may be nil here: "+strings.Join(dedup(bi.why), "; ")+"; dominating conditions: "+condList(s.Call.Block()))
		default:
			c.OK(key, s.Call.Pos(), s.Fn, "released buffer is non-nil, pool-born and capacity-preserving", strings.Join(dedup(bi.why), "; "))
		}
	}
	if n < 40 {
		c.Unknown("release-sites", token.NoPos, nil, "at least 40 buffer release sites", fmt.Sprint(n))
	}
}

// nonNilByAliasGuard: the released value is a load of x.f and a dominating condition tests another
// load of the same x.f against nil (go/ssa does not CSE the two loads), with no store to f in between.
func nonNilByAliasGuard(fn *ssa.Function, v ssa.Value, b *ssa.BasicBlock) bool {
	e := core.Expr(core.Strip(v))
	for _, cnd := range core.CondsAt(b) {
		tv, trueIsNil, ok := core.NilTest(cnd.Cond)
		if !ok {
			continue
		}
		if core.Expr(core.Strip(tv)) == e && cnd.Val != trueIsNil {
			if _, isLoad := core.Strip(tv).(*ssa.UnOp); isLoad {
				return true
			}
		}
	}
	return false
}

// ---- R20e: moved-from structs ----

// retainsParam: fn stores its k-th parameter (a struct value) into memory reachable from its receiver.
func retainsParam(fn *ssa.Function, k int) bool {
	if fn == nil || fn.Blocks == nil || k >= len(fn.Params) {
		return false
	}
	p := fn.Params[k]
	for _, r := range core.RefsThrough(p) {
		if st, ok := r.(*ssa.Store); ok && st.Val == ssa.Value(p) {
			if _, isFA := st.Addr.(*ssa.FieldAddr); isFA {
				return true
			}
		}
	}
	return false
}

func r20e(c *core.Ctx) {
	n := 0
	for _, fn := range c.SrcFuncs() {
		for _, call := range core.Calls(fn) {
			args := core.CallArgs(call)
			for k, a := range args {
				u, ok := a.(*ssa.UnOp)
				if !ok || u.Op != token.MUL {
					continue
				}
				al, ok := u.X.(*ssa.Alloc)
				if !ok {
					continue
				}
				st, ok := al.Type().(*types.Pointer).Elem().Underlying().(*types.Struct)
				if !ok {
					continue
				}
				hasBuf := false
				for i := 0; i < st.NumFields(); i++ {
					if releasableType(st.Field(i).Type()) {
						hasBuf = true
					}
				}
				if !hasBuf {
					continue
				}
				// do the callees retain the struct?
				retained := false
				if callee := core.StaticCallee(call); callee != nil {
					retained = retainsParam(callee, k)
				} else if call.Common().IsInvoke() {
					// every implementation in the module
					for _, f := range c.SrcFuncs() {
						if f.Name() == call.Common().Method.Name() && f.Signature.Recv() != nil && f.Parent() == nil {
							if iface, ok := call.Common().Value.Type().Underlying().(*types.Interface); ok && types.Implements(f.Signature.Recv().Type(), iface) {
								if retainsParam(f, k) { // receiver is param 0 in both numberings
									retained = true
								}
							}
						}
					}
				}
				if !retained {
					continue
				}
				n++
				key := fmt.Sprintf("moved-struct:%s:%s", core.FuncName(fn), al.Comment)
				// after the call, no release of a field of the local struct
				var bad []string
				sum := releaseSummaries(c)
				for _, rc := range core.Calls(fn) {
					for _, x := range releasedArgs(rc, sum) {
						lx, ok := core.Strip(x).(*ssa.UnOp)
						if !ok || lx.Op != token.MUL {
							continue
						}
						if fa, ok := lx.X.(*ssa.FieldAddr); ok && fa.X == ssa.Value(al) && reachableFrom(fn, call, rc) {
							bad = append(bad, fmt.Sprintf("%s(%s) at %s", shortCallee(rc), core.Expr(x), c.Rel(rc.Pos())))
						}
					}
				}
				if len(bad) > 0 {
					c.Bad(key, call.Pos(), fn, "after a struct holding pool buffers was copied into the object that now owns them, its fields are not released through the original (double release: two future owners of one array)",
						core.Expr(call.Common().Value)+" keeps a copy of "+al.Comment+"; released again: "+strings.Join(bad, "; "))
				} else {
					c.OK(key, call.Pos(), fn, "a struct copied into its new owner is not released through the original", "")
				}
			}
		}
	}
	if n == 0 {
		c.Unknown("moved-struct", token.NoPos, nil, "at least one by-value hand-over of a buffer-holding struct (unpackResource)", "none found")
	}
}

// recvStructField: fa addresses a field of a local struct variable whose only value was received
// from a channel; returns, for every send of that struct type in the package, the value stored into
// that field of the sent literal.
func recvStructField(c *core.Ctx, fa *ssa.FieldAddr) (vals []ssa.Value, fns []*ssa.Function, ok bool) {
	al, isAl := fa.X.(*ssa.Alloc)
	if !isAl {
		return nil, nil, false
	}
	fromChan := false
	for _, r := range *al.Referrers() {
		if st, isSt := r.(*ssa.Store); isSt && st.Addr == ssa.Value(al) {
			switch x := st.Val.(type) {
			case *ssa.Extract:
				if _, isSel := x.Tuple.(*ssa.Select); isSel {
					fromChan = true
				} else {
					return nil, nil, false
				}
			case *ssa.UnOp:
				if x.Op == token.ARROW {
					fromChan = true
				} else {
					return nil, nil, false
				}
			case *ssa.Parameter:
				// a helper that is handed the received struct: every static call site passes a value received
				// from a channel
				pf := x.Parent()
				k, sites, all := -1, 0, true
				for i, q := range pf.Params {
					if q == x {
						k = i
					}
				}
				for _, g := range c.SrcFuncs() {
					for _, call := range core.Calls(g) {
						if core.StaticCallee(call) != pf {
							continue
						}
						sites++
						args := core.CallArgs(call)
						if k < 0 || k >= len(args) {
							all = false
							continue
						}
						recv := false
						for _, o := range core.Origins(args[k], core.OriginOpts{}) {
							switch y := o.(type) {
							case *ssa.Extract:
								_, recv = y.Tuple.(*ssa.Select)
							case *ssa.UnOp:
								recv = y.Op == token.ARROW
							default:
								recv = false
							}
							if !recv {
								all = false
							}
						}
					}
				}
				if sites == 0 || !all {
					return nil, nil, false
				}
				fromChan = true
			default:
				return nil, nil, false
			}
		}
	}
	if !fromChan {
		return nil, nil, false
	}
	styp := al.Type().(*types.Pointer).Elem()
	fn := fa.Parent()
	for _, f := range c.SrcFuncs() {
		if f.Pkg == nil || fn.Pkg == nil || f.Pkg.Pkg != fn.Pkg.Pkg {
			if !(f.Parent() != nil && fn.Pkg != nil && f.Parent().Pkg == fn.Pkg) {
				continue
			}
		}
		bad := false
		core.EachInstr(f, func(_ *ssa.BasicBlock, _ int, in ssa.Instruction) {
			var sent ssa.Value
			switch s := in.(type) {
			case *ssa.Send:
				sent = s.X
			case *ssa.Select:
				for _, st := range s.States {
					if st.Dir == types.SendOnly {
						sent = st.Send
					}
				}
			}
			if sent == nil || !types.Identical(sent.Type(), styp) {
				return
			}
			v, _ := structFieldVals(sent, fa.Field, fa.Field)
			if v == nil {
				bad = true
				return
			}
			vals = append(vals, v)
			fns = append(fns, f)
		})
		if bad {
			return nil, nil, false
		}
	}
	return vals, fns, len(vals) > 0
}


// dynCallees: the module functions a call through a function value may reach, when every origin of the value is a
// function (no closures with captured state, no unknown values).
func dynCallees(call *ssa.Call) []*ssa.Function {
	if call.Call.IsInvoke() {
		return nil
	}
	if _, isFn := call.Call.Value.(*ssa.Function); isFn {
		return nil
	}
	var out []*ssa.Function
	for _, o := range core.Origins(call.Call.Value, core.OriginOpts{}) {
		f, ok := o.(*ssa.Function)
		if !ok || f.Blocks == nil {
			return nil
		}
		out = append(out, f)
	}
	return out
}
