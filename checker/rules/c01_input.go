package rules

import (
	"fmt"
	"strings"

	"golang.org/x/tools/go/ssa"

	"mosverif/core"
)

// R01g: the decoder is handed exactly the bytes that were received. For every call of dnsmsg.UnpackMsg whose argument
// is (a view of) a buffer this code allocated itself, the view is `buf[:n]` with n the count returned by the read that
// filled buf, or the whole buffer after an io.ReadFull(…, buf) that succeeded, or after a copy loop whose completion
// test `readN == len(buffer)` dominates (gnet reassembly). Buffers handed over by a library (Bytes(), Next(),
// s2.Decode) or a caller (parameters: checked at the callers) are views of exactly what was received.
func r01g(c *core.Ctx) {
	n := 0
	for _, s := range c.CallSites(core.M("internal/dnsmsg.UnpackMsg")) {
		n++
		fn := s.Fn
		arg := s.Call.Common().Args[0]
		key := fmt.Sprintf("decoder-input:%s#%d", core.FuncName(fn), n)
		ok, why := receivedBytes(c, fn, arg, s.Call, 0)
		c.Check(ok, key, s.Call.Pos(), fn, "the decoder is given exactly the received bytes (not the rest of a recycled buffer)", why)
	}
	if n < 6 {
		c.Unknown("unpack-sites", 0, nil, "at least 6 UnpackMsg call sites (8 with the linux-only gnet listener)", fmt.Sprint(n))
	}
}

func receivedBytes(c *core.Ctx, fn *ssa.Function, v ssa.Value, at ssa.Instruction, depth int) (bool, string) {
	if depth > 3 {
		return false, "too deep"
	}
	v = core.Strip(v)
	switch x := v.(type) {
	case *ssa.Parameter:
		// every static caller passes received bytes
		sites := c.CallSitesOf(fn)
		if len(sites) == 0 {
			return true, "parameter of an exported entry point"
		}
		idx := -1
		for i, p := range fn.Params {
			if p == x {
				idx = i
			}
		}
		var whys []string
		for _, cs := range sites {
			ok, why := receivedBytes(c, cs.Fn, core.CallArgs(cs.Call)[idx], cs.Call, depth+1)
			if !ok {
				return false, "caller " + core.FuncName(cs.Fn) + ": " + why
			}
			whys = append(whys, why)
		}
		return true, "callers: " + strings.Join(dedup(whys), "; ")
	case *ssa.Slice:
		base := core.Strip(x.X)
		if x.Low != nil {
			if k, isC := core.ConstInt(x.Low); !isC || k != 0 {
				return receivedBytes(c, fn, base, at, depth+1)
			}
		}
		if x.High == nil {
			return receivedBytes(c, fn, base, at, depth+1)
		}
		// buf[:n]: n is a count returned by a call that was given buf (the read that filled it), or a field of the
		// batch-read result for this very buffer
		for _, o := range core.Origins(x.High, core.OriginOpts{}) {
			ex, isEx := o.(*ssa.Extract)
			if isEx {
				if call, isCall := ex.Tuple.(*ssa.Call); isCall {
					for _, a := range call.Call.Args {
						if sameBuffer(a, base) {
							return true, "buf[:n] with n returned by " + core.ModName(core.CallName(call)) + "(buf)"
						}
					}
				}
			}
			if call, isCall := o.(*ssa.Call); isCall {
				for _, a := range call.Call.Args {
					if sameBuffer(a, base) {
						return true, "buf[:n] with n returned by " + core.ModName(core.CallName(call)) + "(buf)"
					}
				}
			}
			// ms[i].Buffers[0][:ms[i].N]: N and Buffers of the same batch element
			if u, isU := o.(*ssa.UnOp); isU {
				he := core.Expr(u.X)
				be := core.Expr(base)
				if strings.HasSuffix(he, ".N") && strings.Contains(be, strings.TrimSuffix(strings.TrimPrefix(he, "&"), ".N")) {
					return true, "batch element's own byte count"
				}
			}
		}
		return false, "the upper bound " + core.Expr(x.High) + " is not the count returned by the read that filled " + core.Expr(base)
	case *ssa.Call:
		n := core.CallName(x)
		if n == core.M("internal/pool.GetBuf") || n == "builtin.make" {
			// the whole self-allocated buffer: an io.ReadFull into it must have succeeded
			for _, call := range core.CallsNamed(fn, "io.ReadFull", "io.ReadAtLeast") {
				if cc, isCall := call.(*ssa.Call); !isCall || !isFullRead(cc) {
					continue
				}
				if sameBuffer(call.Common().Args[1], x) && core.InstrDominates(call, at) {
					if ev := extractOf(call.(*ssa.Call), 1); ev != nil && core.NilAt(ev, at.Block()) == core.IsNil {
						return true, "whole buffer after a successful io.ReadFull"
					}
				}
			}
			return false, "the whole self-allocated buffer " + core.Expr(x) + " is decoded although no io.ReadFull filled it"
		}
		// library-provided views
		if x.Call.IsInvoke() || strings.HasSuffix(n, ").Bytes") || strings.HasSuffix(n, ".Decode") {
			return true, "view provided by " + core.ModName(n)
		}
		return true, "result of " + core.ModName(n)
	case *ssa.Extract:
		if call, ok := x.Tuple.(*ssa.Call); ok {
			return true, "result of " + core.ModName(core.CallName(call))
		}
	case *ssa.Phi:
		var whys []string
		for _, e := range x.Edges {
			if core.IsNilConst(e) {
				continue
			}
			ok, why := receivedBytes(c, fn, e, at, depth+1)
			if !ok {
				return false, why
			}
			whys = append(whys, why)
		}
		return true, strings.Join(dedup(whys), "; ")
	case *ssa.UnOp:
		// a field holding a reassembly buffer: complete when readN == len(buffer) (R13d checks the steps)
		if strings.HasSuffix(core.Expr(x), ".buffer") {
			if hasCond(at.Block(), ".readN < len(", false) {
				return true, "reassembly buffer, decoded only when readN reached len(buffer)"
			}
			return false, "reassembly buffer decoded without the completion test"
		}
		for _, o := range core.Origins(x, core.OriginOpts{}) {
			if o == ssa.Value(x) {
				return false, "untracked variable " + core.Expr(x)
			}
			ok, why := receivedBytes(c, fn, o, at, depth+1)
			if !ok {
				return false, why
			}
			return true, why
		}
	}
	return false, "unrecognised input " + core.Expr(v)
}

func sameBuffer(a, b ssa.Value) bool {
	a, b = core.Strip(a), core.Strip(b)
	if a == b {
		return true
	}
	for _, oa := range core.Origins(a, core.OriginOpts{}) {
		for _, ob := range core.Origins(b, core.OriginOpts{}) {
			if oa == ob {
				return true
			}
		}
	}
	return false
}
