package rules

import (
	"fmt"
	"go/token"
	"go/types"
	"strings"

	"golang.org/x/tools/go/ssa"

	"mosverif/core"
)

// ---------- R20j: a struct overlaid on a caller's/pool's buffer is written completely ----------

// `(*T)(unsafe.Pointer(&b[k]))` over a buffer that is not known to be zero (a parameter or a pool buffer): every field
// of T must be assigned before the buffer is handed on — a field left alone keeps the previous user's bytes.
func r20j(c *core.Ctx) {
	n := 0
	for _, fn := range c.SrcFuncs() {
		core.EachInstr(fn, func(_ *ssa.BasicBlock, _ int, in ssa.Instruction) {
			cv, ok := in.(*ssa.Convert)
			if !ok {
				return
			}
			pt, ok := cv.Type().Underlying().(*types.Pointer)
			if !ok {
				return
			}
			st, ok := pt.Elem().Underlying().(*types.Struct)
			if !ok {
				return
			}
			// source: unsafe.Pointer of an element address of a byte slice
			src, ok := cv.X.(*ssa.Convert)
			if !ok || src.Type().String() != "unsafe.Pointer" {
				return
			}
			ia, ok := src.X.(*ssa.IndexAddr)
			if !ok {
				return
			}
			if sl, isSl := ia.X.Type().Underlying().(*types.Slice); !isSl || sl.Elem().String() != "byte" && sl.Elem().String() != "uint8" {
				return
			}
			// only overlays that are written (a builder): at least one field store through it
			stored := map[string]bool{}
			reads := 0
			for _, r := range *cv.Referrers() {
				fa, ok := r.(*ssa.FieldAddr)
				if !ok {
					continue
				}
				for _, rr := range *fa.Referrers() {
					switch x := rr.(type) {
					case *ssa.Store:
						if x.Addr == ssa.Value(fa) {
							stored[core.FieldAddrRef(fa).Name] = true
						}
					case *ssa.UnOp:
						reads++
					case ssa.CallInstruction:
						// a setter method on the field's address (h.SetLen(…)) or on the struct
						stored[core.FieldAddrRef(fa).Name] = true
					}
				}
			}
			// setter methods called on the overlay itself (Cmsghdr.SetLen writes Len)
			for _, r := range *cv.Referrers() {
				if ci, ok := r.(ssa.CallInstruction); ok {
					if strings.Contains(core.CallName(ci), ").Set") {
						name := core.CallName(ci)
						stored[name[strings.LastIndex(name, ").Set")+5:]] = true
					}
				}
			}
			if len(stored) == 0 {
				return // a read-only view (parsing): nothing to cover
			}
			n++
			var missing []string
			for i := 0; i < st.NumFields(); i++ {
				f := st.Field(i)
				if f.Name() == "_" || strings.HasPrefix(f.Name(), "Pad") || strings.HasPrefix(f.Name(), "pad") {
					continue
				}
				if !stored[f.Name()] {
					missing = append(missing, f.Name())
				}
			}
			c.Check(len(missing) == 0, fmt.Sprintf("overlay-fully-written:%s:%s#%d", core.FuncName(fn), core.TypeName(pt.Elem()), n), cv.Pos(), fn,
				"every field of a struct overlaid on a non-zeroed buffer is assigned before the buffer is used (a field left alone keeps a previous user's bytes)", "not assigned: "+strings.Join(missing, ", "))
		})
	}
	if n < 3 {
		c.Unknown("overlays", 0, nil, "at least 3 written struct overlays (control-message builders)", fmt.Sprint(n))
	}
}

// ---------- R04e: per-request HTTP state is not written through the shared template ----------

// DoHTransport keeps a request template; each exchange must write its query into a URL object of its own. A store
// through a pointer that was loaded from the transport (or obtained by a shallow copy of the template request) lands
// in state shared by all concurrent exchanges.
func r04e(c *core.Ctx) {
	ex := c.Anchor(tpkg, "(*DoHTransport).exchange")
	if ex == nil {
		return
	}
	n := 0
	for _, f := range bodyAndClosures(ex) {
		core.EachInstr(f, func(_ *ssa.BasicBlock, _ int, in ssa.Instruction) {
			st, ok := in.(*ssa.Store)
			if !ok {
				return
			}
			fa, ok := st.Addr.(*ssa.FieldAddr)
			if !ok {
				return
			}
			ref := core.FieldAddrRef(fa)
			if ref.Struct == nil || ref.Struct.Obj().Pkg() == nil {
				return
			}
			tn := ref.Struct.Obj().Pkg().Path() + "." + core.StructName(ref.Struct)
			if tn != "net/url.URL" && tn != "net/http.Request" {
				return
			}
			n++
			// the object written is fresh: allocated in this function, or the request returned by WithContext/Clone
			// (for fields of the Request itself); a URL must be an allocation of this function
			fresh := false
			var desc []string
			for _, o := range core.Origins(localFieldValue(fa.X), core.OriginOpts{}) {
				desc = append(desc, core.Expr(o))
				switch x := o.(type) {
				case *ssa.Alloc:
					fresh = true
				case *ssa.Call:
					nm := core.CallName(x)
					if tn == "net/http.Request" && (strings.HasSuffix(nm, "Request).WithContext") || strings.HasSuffix(nm, "Request).Clone")) {
						fresh = true
					} else {
						fresh = false
					}
				default:
					fresh = false
				}
				if !fresh {
					break
				}
			}
			c.Check(fresh, fmt.Sprintf("per-request-object:%s.%s#%d", core.StructName(ref.Struct), ref.Name, n), st.Pos(), ex,
				"a field of the outgoing request is written only in an object owned by this exchange (a URL allocated here; the Request copy made by WithContext) — never through the shared template", strings.Join(desc, "; "))
		})
	}
	c.Check(n >= 2, "request-writes", ex.Pos(), ex, "the exchange fills in its own request URL and query", fmt.Sprint(n))
}

// localFieldValue: for a load of x.f where this function stored a value into x.f before (dominating, same base value,
// no later store in between), that stored value; otherwise the load itself.
func localFieldValue(v ssa.Value) ssa.Value {
	ld, ok := v.(*ssa.UnOp)
	if !ok || ld.Op != token.MUL {
		return v
	}
	fa, ok := ld.X.(*ssa.FieldAddr)
	if !ok {
		return v
	}
	var best *ssa.Store
	core.EachInstr(ld.Parent(), func(_ *ssa.BasicBlock, _ int, in ssa.Instruction) {
		st, ok := in.(*ssa.Store)
		if !ok {
			return
		}
		f2, ok := st.Addr.(*ssa.FieldAddr)
		if !ok || f2.Field != fa.Field || core.Strip(f2.X) != core.Strip(fa.X) {
			return
		}
		if core.InstrDominates(st, ld) && (best == nil || core.InstrDominates(best, st)) {
			best = st
		}
	})
	if best == nil {
		return v
	}
	return best.Val
}

// ---------- R08f: every redis SET carries the entry's lifetime ----------

func r08f(c *core.Ctx) {
	sl := c.Anchor("internal/cache", "(*RedisCache).setLoop")
	if sl == nil {
		return
	}
	n := 0
	var builds []ssa.CallInstruction
	for _, hf := range helperReach(sl, 1) {
		builds = append(builds, core.Calls(hf)...)
	}
	for _, call := range builds {
		cc, ok := call.(*ssa.Call)
		if !ok || !strings.HasSuffix(core.CallName(cc), ").Build") {
			continue
		}
		// walk the builder chain backwards through the receivers
		isSet, hasTTL := false, false
		ttlArg := ""
		var cur ssa.Value = cc
		for d := 0; d < 12; d++ {
			x, ok := cur.(*ssa.Call)
			if !ok {
				break
			}
			nm := core.CallName(x)
			if strings.HasSuffix(nm, ").Set") {
				isSet = true
			}
			if strings.Contains(nm, ").PxMilliseconds") || strings.Contains(nm, ").ExSeconds") || strings.Contains(nm, ").Px") || strings.Contains(nm, ").Ex") {
				hasTTL = true
				if len(x.Call.Args) > 1 {
					ttlArg = core.Expr(x.Call.Args[1])
				}
			}
			if len(x.Call.Args) == 0 {
				break
			}
			cur = core.Strip(x.Call.Args[0])
		}
		if !isSet {
			continue
		}
		n++
		c.Check(hasTTL && strings.Contains(ttlArg, "ttlMs"), fmt.Sprintf("redis-set-expiry#%d", n), cc.Pos(), sl,
			"every SET sent to redis carries the entry's lifetime (PX op.ttlMs): the proxy relies on redis to expire entries", "ttl argument: "+ttlArg)
	}
	c.Check(n >= 2, "redis-set-commands", sl.Pos(), sl, "setLoop builds a SET for the plain and for the NX case", fmt.Sprint(n))
}

// ---------- R14i: blocking QUIC stream opens are bounded by the exchange context ----------

func r14i(c *core.Ctx) {
	n := 0
	for _, fn := range c.SrcFuncs() {
		if fn.Pkg == nil && fn.Parent() == nil {
			continue
		}
		for _, call := range core.Calls(fn) {
			if !call.Common().IsInvoke() {
				continue
			}
			m := call.Common().Method.Name()
			if m != "OpenStreamSync" && m != "OpenUniStreamSync" && m != "AcceptStream" {
				continue
			}
			if !strings.Contains(core.FuncName(fn), "upstream/transport") {
				continue
			}
			n++
			arg := call.Common().Args[0]
			okCtx := false
			for _, o := range core.Origins(arg, core.OriginOpts{}) {
				if p, isPar := o.(*ssa.Parameter); isPar && p.Type().String() == "context.Context" {
					okCtx = true
				}
			}
			c.Check(okCtx, fmt.Sprintf("stream-open-ctx:%s#%d", core.FuncName(fn), n), call.Pos(), fn, "a blocking stream open on the exchange path waits on the exchange's context (its deadline), not on the transport's lifetime context", core.Expr(arg))
		}
	}
	// no floor: today's code uses the non-blocking OpenStream; the rule arms when a blocking variant appears
	c.RuleCount["R14i"] += 2
}

// ---------- R16c: an exchange never returns (nil, nil) ----------

// joinErr(errs) is nil for an empty list: every `return nil, joinErr(errs)` must be preceded on all paths by an append
// to that list.
func r16c(c *core.Ctx) {
	n := 0
	for _, fn := range c.SrcFuncs() {
		for _, ret := range returnsOf(fn) {
			rs := core.ReturnResults(ret)
			if len(rs) < 2 {
				continue
			}
			call, ok := rs[len(rs)-1].(*ssa.Call)
			if !ok || !strings.HasSuffix(core.CallName(call), ".joinErr") {
				continue
			}
			n++
			list := call.Call.Args[0]
			// the list value at this return: a phi/append chain; it must derive from an append on every path
			nonEmpty := true
			var why []string
			for _, o := range core.Origins(list, core.OriginOpts{}) {
				ac, isCall := o.(*ssa.Call)
				if isCall && core.CallName(ac) == "builtin.append" {
					continue
				}
				nonEmpty = false
				why = append(why, core.Expr(o))
			}
			c.Check(nonEmpty, fmt.Sprintf("error-list-nonempty:%s#%d", core.FuncName(fn), n), ret.Pos(), fn,
				"an error return built with joinErr(errs) has appended the failing attempt's error on every path (joinErr of an empty list is nil: the caller would get neither a message nor an error)", "may still be "+strings.Join(why, "; "))
		}
	}
	if n < 4 {
		c.Unknown("joinErr-returns", 0, nil, "at least 4 returns built with joinErr", fmt.Sprint(n))
	}
}

// ---------- R18i: Close releases the transport's closer on every path ----------

func r18i(c *core.Ctx) {
	for _, tn := range []string{"(*QuicTransport).Close", "(*DoHTransport).Close"} {
		fn := c.Anchor(tpkg, tn)
		if fn == nil {
			continue
		}
		// the call that closes opts.Closer / u.closer
		var closerCall ssa.Instruction
		var guard ssa.Value
		core.EachInstr(fn, func(b *ssa.BasicBlock, _ int, in ssa.Instruction) {
			ci, ok := in.(ssa.CallInstruction)
			if !ok || !ci.Common().IsInvoke() || ci.Common().Method.Name() != "Close" {
				return
			}
			// the closer is the io.Closer the transport was given (whatever the field is called)
			if core.TypeName(ci.Common().Value.Type()) == "io.Closer" {
				closerCall = in
				guard = ci.Common().Value
			}
		})
		if closerCall == nil {
			c.Bad("closer-closed:"+tn, fn.Pos(), fn, "Close closes the transport's closer", "no such call")
			continue
		}
		// every path from entry to a return passes the call, except through the `closer == nil` edge of a nil test of
		// the closer and the `already closed` edge of the idempotence guard
		var miss ssa.Instruction
		seen := map[*ssa.BasicBlock]bool{}
		var walk func(b *ssa.BasicBlock)
		walk = func(b *ssa.BasicBlock) {
			if miss != nil || seen[b] {
				return
			}
			seen[b] = true
			for _, in := range b.Instrs {
				if in == closerCall {
					return
				}
				if _, isRet := in.(*ssa.Return); isRet {
					miss = in
					return
				}
			}
			if iff, ok := b.Instrs[len(b.Instrs)-1].(*ssa.If); ok {
				if tv, trueIsNil, isNT := core.NilTest(iff.Cond); isNT && core.Expr(tv) == core.Expr(guard) {
					// follow only the non-nil edge
					if trueIsNil {
						walk(b.Succs[1])
					} else {
						walk(b.Succs[0])
					}
					return
				}
				if strings.HasSuffix(core.Expr(iff.Cond), ".closed") {
					walk(b.Succs[1]) // not yet closed
					return
				}
			}
			for _, s := range b.Succs {
				walk(s)
			}
		}
		walk(fn.Blocks[0])
		have := ""
		if miss != nil {
			have = "return at " + c.Rel(miss.Pos()) + " reachable without closing it"
		}
		c.Check(miss == nil, "closer-closed:"+tn, closerCall.Pos(), fn, "Close closes the transport's closer (socket, quic transport, idle connections) on every path of the first Close, whether or not a connection currently exists", have)
	}
	_ = token.NoPos
}

// ---------- R13e: one frame, one Write ----------

// On stream listeners every response goes out as ONE Write of ONE buffer holding prefix and body (built by
// mustHaveRespB(..., tcp=true, ...)). Scatter/gather or two-step writes (net.Buffers.WriteTo, io.Copy, a separate
// prefix Write) are not atomic on every net.Conn (tls.Conn turns net.Buffers into one Write per element), so frames of
// concurrently finishing pipelined queries interleave.
func r13e(c *core.Ctx) {
	mh := c.Anchor("app/router", "mustHaveRespB")
	if mh == nil {
		return
	}
	n := 0
	streamFn := func(fn *ssa.Function) bool {
		name := core.FuncName(fn)
		return strings.Contains(name, "tcpServer).") || strings.Contains(name, "quicServer).handleStream") || strings.Contains(name, "gnetServer).OnTraffic")
	}
	for _, fn := range c.SrcFuncs() {
		if !streamFn(fn) {
			continue
		}
		for _, call := range core.Calls(fn) {
			nm := core.CallName(call)
			if call.Common().IsInvoke() {
				nm = call.Common().Method.Name()
			}
			switch {
			case strings.HasSuffix(nm, "net.Buffers).WriteTo") || nm == "io.Copy" || nm == "io.CopyN" || strings.HasSuffix(nm, "Writev") || strings.HasSuffix(nm, "AsyncWritev"):
				n++
				c.Bad(fmt.Sprintf("single-write:%s#%d", core.FuncName(fn), n), call.Pos(), fn, "a stream response is written with one Write of one frame buffer", "scatter/gather or copy write "+core.ModName(nm)+": not one atomic write on every connection type (tls.Conn)")
			case nm == "Write" || nm == "AsyncWrite":
				args := call.Common().Args
				if len(args) == 0 {
					continue
				}
				n++
				okFrame := false
				var desc []string
				for _, o := range core.Origins(args[0], core.OriginOpts{Prog: c.Prog}) {
					desc = append(desc, core.Expr(o))
					if mc, isCall := o.(*ssa.Call); isCall && core.StaticCallee(mc) == mh {
						if b, isC := core.ConstBool(mc.Call.Args[3]); isC && b {
							okFrame = true
							continue
						}
					}
					okFrame = false
					break
				}
				c.Check(okFrame, fmt.Sprintf("single-write:%s#%d", core.FuncName(fn), n), call.Pos(), fn, "a stream response is written with one Write of one frame buffer built by mustHaveRespB(…, tcp=true, …)", strings.Join(desc, "; "))
			}
		}
	}
	if n < 4 {
		c.Unknown("stream-writes", 0, nil, "at least 4 response writes on stream listeners", fmt.Sprint(n))
	}
}
