package rules

import (
	"golang.org/x/tools/go/ssa"

	"mosverif/core"
)

func runFixtures(prop, dir string, all bool) (lines []string, failures []string) { return nil, nil }

// ResetMemos drops every per-program memo table (they are keyed by pointers into one loaded program and would
// otherwise keep that program alive).
func ResetMemos() {
	engineMemo = map[*core.Ctx]*boundsEngine{}
	scanLabelMemo = map[*ssa.Function]int64{}
	protocolMemo = map[*core.Ctx]map[string][2]string{}
	scanSummaryMemo = map[*ssa.Function][2]string{}
	core.ResetMemos()
}
