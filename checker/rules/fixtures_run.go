package rules

func runFixtures(prop, dir string, all bool) (lines []string, failures []string) { return nil, nil }
